//! Thin wrappers around the real implementation: run one sentence on a fresh or reused worker
//! and capture everything observable.
use vibrato::tokenizer::worker::Worker;
use vibrato::{Dictionary, Tokenizer};

use crate::common::guard;
use crate::refmodel::{lex_code, Opts, RefNode};

#[derive(Clone, Debug, PartialEq, Eq, Hash)]
pub struct Tok {
    pub cs: usize,
    pub ce: usize,
    pub bs: usize,
    pub be: usize,
    pub surface: String,
    pub feature: String,
    pub lex: u8,
    pub word_id: u32,
    pub left: u16,
    pub right: u16,
    pub cost: i16,
    pub total: i32,
}

impl Tok {
    pub fn to_json(&self) -> serde_json::Value {
        serde_json::json!({
            "chars": [self.cs, self.ce], "bytes": [self.bs, self.be],
            "surface": self.surface, "feature": self.feature, "lex": self.lex, "word_id": self.word_id,
            "left": self.left, "right": self.right, "cost": self.cost, "total": self.total
        })
    }
}

pub fn make_tokenizer(dict: Dictionary, opts: Opts) -> Result<Tokenizer, String> {
    match guard(|| {
        Tokenizer::new(dict)
            .ignore_space(opts.ignore_space)
            .map(|t| t.max_grouping_len(opts.mgl))
    }) {
        Err(p) => Err(format!("PANIC {p}")),
        Ok(Err(e)) => Err(format!("Err {e}")),
        Ok(Ok(t)) => Ok(t),
    }
}

/// The same final option values reached through a detour of earlier option calls
/// (options set more than once, switched on and off again, in another order).
pub fn make_tokenizer_detour(dict: Dictionary, opts: Opts, detour: usize) -> Result<Tokenizer, String> {
    match guard(|| -> Result<Tokenizer, vibrato::errors::VibratoError> {
        let t = Tokenizer::new(dict);
        let t = match detour % 3 {
            0 => {
                // the opposite values first
                let t = t.ignore_space(!opts.ignore_space)?.max_grouping_len(opts.mgl + 1);
                t.ignore_space(opts.ignore_space)?.max_grouping_len(opts.mgl)
            }
            1 => {
                // other order, every option twice
                let t = t.max_grouping_len(opts.mgl).ignore_space(opts.ignore_space)?;
                t.ignore_space(opts.ignore_space)?.max_grouping_len(7).max_grouping_len(opts.mgl)
            }
            _ => {
                // on, off, final; 0 (unlimited), 3, final
                let t = t.ignore_space(true)?.ignore_space(false)?.ignore_space(opts.ignore_space)?;
                t.max_grouping_len(0).max_grouping_len(3).max_grouping_len(opts.mgl)
            }
        };
        Ok(t)
    }) {
        Err(p) => Err(format!("PANIC {p}")),
        Ok(Err(e)) => Err(format!("Err {e}")),
        Ok(Ok(t)) => Ok(t),
    }
}

/// Reads the tokens of a worker through `token(i)`.
pub fn read_tokens(w: &Worker) -> Vec<Tok> {
    let mut v = vec![];
    for i in 0..w.num_tokens() {
        let t = w.token(i);
        let rc = t.range_char();
        let rb = t.range_byte();
        let wi = t.word_idx();
        v.push(Tok {
            cs: rc.start,
            ce: rc.end,
            bs: rb.start,
            be: rb.end,
            surface: t.surface().to_string(),
            feature: t.feature().to_string(),
            lex: lex_code(t.lex_type()),
            word_id: wi.word_id,
            left: t.left_id(),
            right: t.right_id(),
            cost: t.word_cost(),
            total: t.total_cost(),
        });
    }
    v
}

/// Reads the tokens through `token_iter()` (surface, ranges only – enough to compare).
pub fn read_tokens_iter(w: &Worker) -> Vec<(usize, usize, usize, usize, String, String)> {
    w.token_iter()
        .map(|t| {
            let rc = t.range_char();
            let rb = t.range_byte();
            (
                rc.start,
                rc.end,
                rb.start,
                rb.end,
                t.surface().to_string(),
                t.feature().to_string(),
            )
        })
        .collect()
}

pub struct RealRun {
    pub tokens: Vec<Tok>,
    pub iter_tokens: Vec<(usize, usize, usize, usize, String, String)>,
    pub nodes: Vec<RefNode>,
    pub node_minima: Vec<(RefNode, u16, i32)>,
    pub eos: Option<(usize, u16, i32)>,
}

/// Tokenizes `s` on a fresh worker. `Err` = panic message.
pub fn run_fresh(t: &Tokenizer, s: &str, with_lattice: bool) -> Result<RealRun, String> {
    guard(|| {
        let mut w = t.new_worker();
        w.reset_sentence(s);
        w.tokenize();
        capture(t, &w, with_lattice && !s.is_empty())
    })
}

pub fn capture(t: &Tokenizer, w: &Worker, with_lattice: bool) -> RealRun {
    let tokens = read_tokens(w);
    let iter_tokens = read_tokens_iter(w);
    let mut nodes = vec![];
    let mut node_minima = vec![];
    let mut eos = None;
    if with_lattice {
        let l = w.verif_lattice();
        for e in &l.ends {
            for n in e {
                let rn = RefNode {
                    start_node: n.start_node,
                    start_word: n.start_word,
                    end: n.end,
                    lex: lex_code(n.lex_type),
                    word_id: n.word_id,
                    left: n.left_id,
                    right: n.right_id,
                    cost: t.dictionary().verif_word_param(n.lex_type, n.word_id).2,
                };
                node_minima.push((rn.clone(), n.min_idx, n.min_cost));
                nodes.push(rn);
            }
        }
        eos = l.eos.as_ref().map(|n| (n.start_node, n.min_idx, n.min_cost));
    }
    RealRun {
        tokens,
        iter_tokens,
        nodes,
        node_minima,
        eos,
    }
}

