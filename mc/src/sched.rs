//! E3: preemption-bounded exploration of the interleavings of real OS threads.
//!
//! Exactly one controlled thread is given the baton at a time. A thread hands the baton back
//! at every `vibrato::verif::yield_point` (installed as a thread-local hook) and when it
//! finishes. A thread that blocks on a real lock without reaching a yield point is detected by
//! its scheduler state in /proc (sleeping while holding the baton) and treated as blocked: the
//! controller goes on with the other threads and waits for the blocked one to settle (park,
//! finish or block again) before every later decision, so waiting is visible and decisions stay
//! deterministic. A schedule is the list of choices taken where more than one thread was
//! enabled; exploration follows iterative context bounding (all schedules with at most P
//! preemptions, depth-first over choice prefixes).
use std::sync::{Arc, Condvar, Mutex};
use std::time::{Duration, Instant};

pub struct Baton {
    m: Mutex<BState>,
    cv: Condvar,
}

struct BState {
    running: Option<usize>,
    parked: Vec<Option<&'static str>>,
    done: Vec<bool>,
    tids: Vec<Option<String>>,
}

impl Baton {
    fn new(n: usize) -> Arc<Self> {
        Arc::new(Baton {
            m: Mutex::new(BState {
                running: None,
                parked: vec![None; n],
                done: vec![false; n],
                tids: vec![None; n],
            }),
            cv: Condvar::new(),
        })
    }

    fn park(&self, me: usize, site: &'static str) {
        let mut g = self.m.lock().unwrap();
        g.parked[me] = Some(site);
        if g.running == Some(me) {
            g.running = None;
        }
        self.cv.notify_all();
        while g.running != Some(me) {
            g = self.cv.wait(g).unwrap();
        }
        g.parked[me] = None;
    }

    fn finish(&self, me: usize) {
        let mut g = self.m.lock().unwrap();
        g.done[me] = true;
        if g.running == Some(me) {
            g.running = None;
        }
        self.cv.notify_all();
    }
}

fn thread_state(task_path: &str) -> Option<char> {
    let s = std::fs::read_to_string(format!("/proc/{task_path}/stat")).ok()?;
    let i = s.rfind(')')?;
    s[i + 1..].trim_start().chars().next()
}

#[derive(Clone, Debug)]
pub struct ChoicePoint {
    pub enabled: Vec<usize>,
    pub chosen: usize,
    pub prev_running_enabled: bool,
    pub site_of_prev: Option<&'static str>,
}

#[derive(Clone, Debug, Default)]
pub struct Execution {
    pub points: Vec<ChoicePoint>,
    pub choices: Vec<usize>,
    pub switches_inside: u64,
    pub blocked_handoffs: u64,
    pub steps: u64,
    pub deadlock: bool,
}

impl Execution {
    pub fn preemptions_before(&self, i: usize) -> usize {
        self.points[..i]
            .iter()
            .zip(&self.choices)
            .filter(|(p, &c)| p.prev_running_enabled && c != 0)
            .count()
    }
}

/// Waits until every live thread is parked, or is sleeping on something else (blocked).
/// Returns the set of blocked threads.
fn settle(b: &Baton, n: usize, timeout: Duration) -> Result<Vec<bool>, String> {
    let start = Instant::now();
    let mut s_count = vec![0u32; n];
    loop {
        let g = b.m.lock().unwrap();
        // (thread, tid, has it left the baton's own wait yet?)
        let active: Vec<(usize, Option<String>, bool)> = (0..n)
            .filter(|&i| !g.done[i] && !(g.parked[i].is_some() && g.running != Some(i)))
            .map(|i| (i, g.tids[i].clone(), g.parked[i].is_none()))
            .collect();
        if active.is_empty() {
            return Ok(vec![false; n]);
        }
        drop(g);
        let mut all_blocked = true;
        for (i, tid, left_park) in &active {
            // A thread that was handed the baton but has not woken up from the baton's own
            // condition wait yet is also "sleeping": it must not be taken for blocked.
            let st = if *left_park { tid.as_deref().and_then(thread_state) } else { None };
            if st == Some('S') {
                s_count[*i] += 1;
            } else {
                s_count[*i] = 0;
            }
            if s_count[*i] < 6 {
                all_blocked = false;
            }
        }
        if all_blocked {
            let mut g = b.m.lock().unwrap();
            let mut blocked = vec![false; n];
            let mut still = true;
            for (i, _, _) in &active {
                if !g.done[*i] && !(g.parked[*i].is_some() && g.running != Some(*i)) {
                    blocked[*i] = true;
                } else {
                    still = false;
                }
            }
            if still {
                if let Some(r) = g.running {
                    if blocked[r] {
                        g.running = None;
                    }
                }
                return Ok(blocked);
            }
            continue;
        }
        if start.elapsed() > timeout {
            return Err("a controlled thread neither reached a yield point nor blocked within the watchdog period (uncontrolled)".into());
        }
        let g = b.m.lock().unwrap();
        let _ = b.cv.wait_timeout(g, Duration::from_micros(150)).unwrap();
    }
}

/// Runs `bodies` under the schedule prefix `prefix` (choice 0 after the prefix).
pub fn run_schedule<'env, F>(bodies: &[F], prefix: &[usize], timeout: Duration) -> Result<Execution, String>
where
    F: Fn(usize) + Sync + 'env,
{
    let n = bodies.len();
    let baton = Baton::new(n);
    let mut ex = Execution::default();
    let mut err: Option<String> = None;
    std::thread::scope(|s| {
        for (i, body) in bodies.iter().enumerate() {
            let b = baton.clone();
            s.spawn(move || {
                let tid = std::fs::read_link("/proc/thread-self")
                    .ok()
                    .map(|p| p.to_string_lossy().to_string());
                b.m.lock().unwrap().tids[i] = tid;
                let b2 = b.clone();
                vibrato::verif::set_yield_hook(Some(Box::new(move |site| b2.park(i, site))));
                b.park(i, "start");
                let _ = std::panic::catch_unwind(std::panic::AssertUnwindSafe(|| body(i)));
                vibrato::verif::set_yield_hook(None);
                b.finish(i);
            });
        }
        let mut prev: Option<usize> = None;
        loop {
            let blocked = match settle(&baton, n, timeout) {
                Ok(b) => b,
                Err(e) => {
                    err = Some(e);
                    release_all(&baton, n);
                    break;
                }
            };
            let mut g = baton.m.lock().unwrap();
            if let Some(p) = prev {
                if blocked[p] {
                    ex.blocked_handoffs += 1;
                }
            }
            let mut enabled: Vec<usize> = (0..n).filter(|&i| !g.done[i] && g.parked[i].is_some()).collect();
            if enabled.is_empty() {
                if (0..n).all(|i| g.done[i]) {
                    break;
                }
                // every remaining thread is blocked on a real lock: deadlock
                ex.deadlock = true;
                err = Some("deadlock: every remaining thread is blocked".into());
                drop(g);
                release_all(&baton, n);
                break;
            }
            let prev_enabled = prev.map_or(false, |p| enabled.contains(&p));
            if let Some(p) = prev {
                if prev_enabled {
                    enabled.retain(|&x| x != p);
                    enabled.insert(0, p);
                }
            }
            let site_of_prev = prev.and_then(|p| g.parked[p]);
            let chosen_idx = if enabled.len() == 1 {
                0
            } else {
                let k = ex.points.len();
                let c = if k < prefix.len() { prefix[k] } else { 0 };
                if c >= enabled.len() {
                    err = Some(format!("schedule prefix choice {c} out of range at point {k} (enabled {:?})", enabled));
                    drop(g);
                    release_all(&baton, n);
                    break;
                }
                ex.points.push(ChoicePoint {
                    enabled: enabled.clone(),
                    chosen: enabled[c],
                    prev_running_enabled: prev_enabled,
                    site_of_prev,
                });
                ex.choices.push(c);
                c
            };
            let next = enabled[chosen_idx];
            if prev.is_some() && prev != Some(next) && prev_enabled {
                if let Some(site) = site_of_prev {
                    if site.starts_with("lattice:") || site == "tokenize:built" || site == "reset:cleared" {
                        ex.switches_inside += 1;
                    }
                }
            }
            ex.steps += 1;
            g.running = Some(next);
            prev = Some(next);
            baton.cv.notify_all();
            drop(g);
        }
    });
    match err {
        Some(e) if !ex.deadlock => Err(e),
        _ => Ok(ex),
    }
}

fn release_all(b: &Baton, n: usize) {
    for _ in 0..200_000 {
        let mut g = b.m.lock().unwrap();
        if (0..n).all(|i| g.done[i]) {
            return;
        }
        if g.running.is_none() {
            if let Some(i) = (0..n).find(|&i| !g.done[i] && g.parked[i].is_some()) {
                g.running = Some(i);
                b.cv.notify_all();
            }
        }
        let _ = b.cv.wait_timeout(g, Duration::from_millis(5)).unwrap();
    }
}

/// Explores all schedules with at most `bound` preemptions; `on_exec` is called after every
/// complete execution and returns false to stop.
pub fn explore<'env, F>(
    bodies: &[F],
    bound: usize,
    timeout: Duration,
    max_execs: u64,
    on_exec: &mut dyn FnMut(&Execution) -> bool,
) -> Result<(u64, bool), String>
where
    F: Fn(usize) + Sync + 'env,
{
    let mut count = 0u64;
    let mut capped = false;
    let mut stack: Vec<Vec<usize>> = vec![vec![]];
    while let Some(prefix) = stack.pop() {
        if count >= max_execs {
            capped = true;
            break;
        }
        let ex = run_schedule(bodies, &prefix, timeout)?;
        count += 1;
        if ex.choices.len() < prefix.len() && !ex.deadlock {
            return Err(format!(
                "divergence while replaying prefix {:?}: only {} choice points",
                prefix,
                ex.choices.len()
            ));
        }
        for (i, c) in prefix.iter().enumerate() {
            if i < ex.choices.len() && ex.choices[i] != *c {
                return Err("divergence while replaying a schedule prefix".into());
            }
        }
        if !on_exec(&ex) {
            break;
        }
        for i in prefix.len()..ex.points.len() {
            let p = &ex.points[i];
            let before = ex.preemptions_before(i);
            for alt in 1..p.enabled.len() {
                let cost = before + usize::from(p.prev_running_enabled);
                if cost > bound {
                    continue;
                }
                let mut np: Vec<usize> = ex.choices[..i].to_vec();
                np.push(alt);
                stack.push(np);
            }
        }
    }
    Ok((count, capped))
}
