//! E6: trained-model universe. C14 (generated files are the image of the model), C15 (model
//! round trip), C16 (bigram files agree with matrix.def), C18 dictionary level (connection
//! classes). Every configuration of a finite family is really trained; then weight vectors from
//! a small alphabet are injected into the real model structure and everything is re-checked.
use std::collections::{BTreeMap, HashMap};
use std::num::NonZeroU32;

use bincode::{Decode, Encode};
use serde_json::json;
use vibrato::trainer::verif::Kind;
use vibrato::trainer::{Corpus, Model, Trainer, TrainerConfig};
use vibrato::SystemDictionaryBuilder;

use crate::common::*;
use crate::props::c18::expand;

#[derive(Encode, Decode, Clone, Debug, PartialEq)]
pub struct FsMirror {
    pub unigram: Vec<NonZeroU32>,
    pub bigram_right: Vec<Option<NonZeroU32>>,
    pub bigram_left: Vec<Option<NonZeroU32>>,
}
#[derive(Encode, Decode, Clone, Debug, PartialEq)]
pub struct ProviderMirror {
    pub feature_sets: Vec<FsMirror>,
}
#[derive(Encode, Decode, Clone, Debug, PartialEq)]
pub struct RawMirror {
    pub weights: Vec<f64>,
    pub uwi: Vec<Option<NonZeroU32>>,
    pub bwi: Vec<Vec<(u32, u32)>>,
    pub provider: ProviderMirror,
}

fn bcfg() -> bincode::config::Configuration<bincode::config::LittleEndian, bincode::config::Fixint> {
    bincode::config::standard().with_little_endian().with_fixed_int_encoding()
}

#[derive(Clone, Debug)]
pub struct TrainCfg {
    pub name: String,
    pub seed: Vec<(String, String)>, // (surface, feature tail)
    pub unk: Vec<(String, String)>,  // (category name, feature)
    pub cats: Vec<String>,           // category names in id order
    pub chardef: String,
    pub unigram_templates: Vec<String>,
    pub bigram_templates: Vec<(String, String)>,
    pub rewrite: String,
    pub corpus: String,
    pub users: Vec<String>,
}

impl TrainCfg {
    pub fn lex_text(&self) -> String {
        self.seed.iter().map(|(s, f)| format!("{},0,0,0,{}\n", crate::refmodel::csv_quote(s), f)).collect()
    }
    pub fn unk_text(&self) -> String {
        self.unk.iter().map(|(c, f)| format!("{c},0,0,0,{f}\n")).collect()
    }
    pub fn featdef_text(&self) -> String {
        let mut s = String::new();
        for t in &self.unigram_templates {
            s.push_str(&format!("UNIGRAM {t}\n"));
        }
        for (l, r) in &self.bigram_templates {
            s.push_str(&format!("BIGRAM {l}/{r}\n"));
        }
        s
    }
    pub fn describe(&self) -> serde_json::Value {
        json!({"config": self.name, "lex.csv": self.lex_text(), "unk.def": self.unk_text(), "char.def": self.chardef,
            "feature.def": self.featdef_text(), "rewrite.def": self.rewrite, "corpus": self.corpus, "user lexicons": self.users})
    }
}

pub fn train(cfg: &TrainCfg, max_iter: u64) -> Result<Model, String> {
    let r = guard(|| -> Result<Model, vibrato::errors::VibratoError> {
        let config = TrainerConfig::from_readers(
            cfg.lex_text().as_bytes(),
            cfg.chardef.as_bytes(),
            cfg.unk_text().as_bytes(),
            cfg.featdef_text().as_bytes(),
            cfg.rewrite.as_bytes(),
        )?;
        let trainer = Trainer::new(config)?.regularization_cost(0.01).max_iter(max_iter).num_threads(1);
        let corpus = Corpus::from_reader(cfg.corpus.as_bytes())?;
        let mut model = trainer.train(corpus)?;
        for u in &cfg.users {
            model.read_user_lexicon(u.as_bytes())?;
        }
        Ok(model)
    });
    match r {
        Err(p) => Err(format!("PANIC {p}")),
        Ok(Err(e)) => Err(format!("Err {e}")),
        Ok(Ok(m)) => Ok(m),
    }
}

/// two feature strings sharing a prefix of 258 bytes
const LONG_X: &str = "AAAAAAAAAAAAAAAAAAAAAAAAAAAAAAAAAAAAAAAAAAAAAAAAAAAAAAAAAAAAAAAAAAAAAAAAAAAAAAAAAAAAAAAAAAAAAAAAAAAAAAAAAAAAAAAAAAAAAAAAAAAAAAAAAAAAAAAAAAAAAAAAAAAAAAAAAAAAAAAAAAAAAAAAAAAAAAAAAAAAAAAAAAAAAAAAAAAAAAAAAAAAAAAAAAAAAAAAAAAAAAAAAAAAAAAAAAAAAAAAAAAAAAAAAAAAAAAAAAAAAAAAAAAAAAx,x";
const LONG_Y: &str = "AAAAAAAAAAAAAAAAAAAAAAAAAAAAAAAAAAAAAAAAAAAAAAAAAAAAAAAAAAAAAAAAAAAAAAAAAAAAAAAAAAAAAAAAAAAAAAAAAAAAAAAAAAAAAAAAAAAAAAAAAAAAAAAAAAAAAAAAAAAAAAAAAAAAAAAAAAAAAAAAAAAAAAAAAAAAAAAAAAAAAAAAAAAAAAAAAAAAAAAAAAAAAAAAAAAAAAAAAAAAAAAAAAAAAAAAAAAAAAAAAAAAAAAAAAAAAAAAAAAAAAAAAAAAAAy,x";

const CHARDEFS: [&str; 2] = [
    "DEFAULT 0 1 0\nSPACE 0 1 0\nAL 1 1 2\nKJ 0 0 2\n0x0020 SPACE\n0x0061..0x007A AL\n0x3040..0x309F KJ\n",
    "DEFAULT 0 1 0\nSPACE 0 1 0\nAL 0 0 1\nKJ 1 1 0\n0x0020 SPACE\n0x0061..0x007A AL KJ\n0x3040..0x309F KJ\n",
];

pub fn family(tier: Tier) -> Vec<TrainCfg> {
    let seeds: Vec<(&str, Vec<(&str, &str)>)> = vec![
        ("plain", vec![("a", "N,x"), ("b", "V,y"), ("ab", "N,z"), ("c", "P,x"), ("bc", "V,x")]),
        ("quoted", vec![("a,b", "N,\"p,q\""), ("a", "N,x"), ("a", "V,x"), ("あ", "N,x"), ("b", "\"p,q\",y"), ("c", "P,x"),
            // surfaces with a lone CR (a record terminator to the CSV reader unless quoted), a leading blank, a leading '#'
            ("a\rb", "N,cr-inside"), ("\rb", "V,leading-cr"), (" a", "N,leading-blank"), ("#a", "P,hash"),
            ("aaaaaaaaaabbbbbbbbbbccccccccccaaaa,b", "N,long-late-comma"),
            ("aaaaaaaaaabbbbbbbbbbccccccccccaaaaaaaaaabbbbbbbbbbccccccccccaaaa,1", "N,late-comma-at-64"),
            ("ccccccccccccccccccccccccccccccccccccccccccccccccccccccccccccccccccccccccccccccccccccccccccccccccccccccccccccccccccccccccccccccccc\"q", "P,late-quote-at-129"), ("bbbbbbbbbbccccccccccaaaaaaaaaabbbbbbbbbbc\"c", "V,\"long,late quote in a feature cell that is itself long enough\"")]),
        ("short", vec![("a", "N"), ("b", "V"), ("ab", "N,x,extra"), ("c", "*")]),
        ("longfeat", vec![("a", "N,x"), ("b", LONG_X), ("b", LONG_Y), ("c", "P,x"), ("ab", "V,y")]),
    ];
    let unks: Vec<(&str, Vec<(&str, &str)>)> = vec![
        ("unk1", vec![("DEFAULT", "U,*"), ("SPACE", "S,*"), ("AL", "N,*"), ("KJ", "N,k")]),
        ("unk2", vec![("KJ", "N,k"), ("AL", "N,*"), ("DEFAULT", "U,*"), ("AL", "V,*"), ("SPACE", "S,*"), ("DEFAULT", "U,u2")]),
    ];
    let uni_menu = ["U:%F[0]", "UT:%t/%F?[1]"];
    let bi_menu = [("B1:%L[0]", "%R[0]"), ("%L[0],%L?[1]", "%R[1]"), ("B3:%L?[1]", "B3:%R?[1]")];
    let rewrites = [
        "",
        // (*) is a group listing the literal text '*', not the wildcard
        "[unigram rewrite]\n*,* $1,$2\n[left rewrite]\nN,(*) $1,STAR\nN,* $1,k\n*,* $1,$2\n[right rewrite]\n(N|V),x $1,$2\n(P),(*) $1,PSTAR\n* $1,z\n",
        // no catch-all rules: a section that does not match must fall back to the ORIGINAL features
        "[unigram rewrite]\nN,x UNI,$2\nV,* UNV,$2\n[left rewrite]\nV,* $1,LL\n[right rewrite]\nP,* RR,$2\nN,z $1,RZ\n",
    ];
    let corpora = [
        "a\tN,x\nb\tV,y\nEOS\n",
        "ab\tN,z\nc\tP,x\nEOS\na\tN,x\nEOS\n",
        "zz\tN,*\nb\tV,y\nEOS\n",           // out-of-lexicon token compatible with an unknown entry
        "q\tXX,yy\nc\tP,x\nEOS\nb\tV,y\nc\tP,x\nEOS\n", // virtual edge
    ];
    let long_corpus = format!("b\t{LONG_X}\nc\tP,x\nEOS\na\tN,x\nb\t{LONG_Y}\nEOS\nb\t{LONG_X}\nb\t{LONG_Y}\nEOS\n");
    let users: Vec<Vec<&str>> = vec![
        vec![],
        vec!["ac,0,0,0,N,x\nca,0,0,0,V,new\n"],
        vec!["ac,1,1,77,N,x\nad,0,1,5,N,x\nae,2,0,-5,V,y\n"],
        vec!["ac,0,0,0,N,x\n\"c\rc\",0,0,0,N,x\n", "\"x,y\",1,2,-5,Q,q\nbb,0,0,0,V,y\n"],
        // the same feature string on surfaces of different character categories
        vec!["ac,0,0,0,N,x\nあc,0,0,0,N,x\n c,0,0,0,N,x\n\"ccccccccccccccccccccccccccccccccccccc,a\",0,0,0,P,x\n\"cccccccccccccccccccccccccccccccccccbc,b\",2,1,9,P,x\n"],
    ];
    let mut out = vec![];
    for (sn, seed) in &seeds {
        for (un, unk) in &unks {
            for (ci, chardef) in CHARDEFS.iter().enumerate() {
                for tmask in 1u32..32 {
                    let unigram: Vec<String> = (0..2).filter(|i| tmask & (1 << i) != 0).map(|i| uni_menu[i].to_string()).collect();
                    let bigram: Vec<(String, String)> = (0..3).filter(|i| tmask & (4 << i) != 0).map(|i| (bi_menu[i].0.to_string(), bi_menu[i].1.to_string())).collect();
                    for (ri, rw) in rewrites.iter().enumerate() {
                        for (coi, corpus) in corpora.iter().enumerate() {
                            // the long-feature lexicon is trained on a corpus that uses its long features
                            let corpus: &str = if *sn == "longfeat" { &long_corpus } else { corpus };
                            if *sn == "longfeat" && coi > 0 {
                                continue;
                            }
                            for (usi, us) in users.iter().enumerate() {
                                // quick tier: a deterministic half of the product, keeping every axis value
                                if tier == Tier::Quick && (tmask as usize + ri + coi + 2 * usi + ci) % 3 != 0 {
                                    continue;
                                }
                                out.push(TrainCfg {
                                    name: format!("{sn}/{un}/chardef{ci}/templates{tmask:05b}/rewrite{ri}/corpus{coi}/user{usi}"),
                                    seed: seed.iter().map(|(a, b)| (a.to_string(), b.to_string())).collect(),
                                    unk: unk.iter().map(|(a, b)| (a.to_string(), b.to_string())).collect(),
                                    cats: vec!["DEFAULT".into(), "SPACE".into(), "AL".into(), "KJ".into()],
                                    chardef: chardef.to_string(),
                                    unigram_templates: unigram.clone(),
                                    bigram_templates: bigram.clone(),
                                    rewrite: rw.to_string(),
                                    corpus: corpus.to_string(),
                                    users: us.iter().map(|s| s.to_string()).collect(),
                                });
                            }
                        }
                    }
                }
            }
        }
    }
    // empty feature cells under bare-capture templates: the expansion is the empty string, which is
    // a legal feature string of its own; and feature values starting with '#' (e.g. the Penn
    // Treebank tag '#'), which a bare template copies to the start of a bigram.cost line
    for (fname, seed, uni, bi, corpus, users) in [
        (
            "emptycell",
            vec![("a", "N,"), ("b", "V,y"), ("ab", ",z"), ("c", "P,"), ("bc", "V,")],
            ["%F[1]", "U:%F[0]"],
            [("%L[1]", "%R[0]"), ("B:%L[0]", "B:%R?[1]")],
            "a\tN,\nc\tP,\nEOS\nab\t,z\nb\tV,y\nEOS\nbc\tV,\na\tN,\nEOS\n",
            vec![vec![], vec!["ca,0,0,0,N,\nbb,0,0,0,,z\n"], vec!["cc,0,0,0,,\n", "ca,1,2,5,N,\n"]],
        ),
        (
            "hashcell",
            vec![("a", "#,x"), ("b", "V,y"), ("ab", "#N,z"), ("c", "P,#"), ("bc", "V,x")],
            ["%F[1]", "U:%F[0]"],
            [("%L[0]", "%R[0]"), ("B:%L[1]", "%R?[1]")],
            "a\t#,x\nc\tP,#\nEOS\nab\t#N,z\nb\tV,y\nEOS\nbc\tV,x\na\t#,x\nEOS\n",
            vec![vec![], vec!["ca,0,0,0,#,x\nbb,0,0,0,V,#\n"], vec!["cc,0,0,0,#,#\n", "ca,1,2,5,#,x\n"]],
        ),
        (
            // templates that contain placeholder syntax of another kind (literal text there)
            "crosskind",
            vec![("a", "N,x"), ("b", "V,y"), ("ab", "N,z"), ("c", "P,x"), ("bc", "V,x")],
            ["U%L[0]:%F[0]", "UT%R[1]-%t"],
            [("B%t:%L[0]", "B%F[0]:%R[0]"), ("%L[1]", "%R?[1]")],
            "a\tN,x\nb\tV,y\nEOS\nab\tN,z\nc\tP,x\nEOS\nbc\tV,x\na\tN,x\nEOS\n",
            vec![vec![], vec!["ac,0,0,0,N,x\nca,0,0,0,V,new\n"], vec!["cc,0,0,0,Q,q\n", "ca,1,2,5,N,x\n"]],
        ),
        (
            // non-ASCII literal text in front of (optional) references: byte and character offsets differ
            "nonascii",
            vec![("a", "N,x"), ("b", "V,*"), ("ab", "N,z"), ("c", "P,*"), ("bc", "V,x")],
            ["品詞:%F[0]", "読:%F?[1]"],
            [("読み:%L?[1]", "読み:%R?[1]"), ("品:%L[0]", "%R[0]")],
            "a\tN,x\nb\tV,*\nEOS\nab\tN,z\nc\tP,*\nEOS\nbc\tV,x\na\tN,x\nEOS\n",
            vec![vec![], vec!["ca,0,0,0,N,*\nbb,0,0,0,V,y\n"], vec!["cc,0,0,0,Q,*\n", "ca,1,2,5,N,x\n"]],
        ),
        (
            // feature values containing the '/' that separates the two sides of a bigram.cost line
            "slashcell",
            vec![("a", "N/A,x"), ("b", "V,y"), ("ab", "N,z/w"), ("c", "P/Q,x"), ("bc", "V,x")],
            ["%F[1]", "U:%F[0]"],
            [("%L[0]", "%R[0]"), ("B:%L[1]", "%R?[1]")],
            "a\tN/A,x\nc\tP/Q,x\nEOS\nab\tN,z/w\nb\tV,y\nEOS\nbc\tV,x\na\tN/A,x\nEOS\n",
            vec![vec![], vec!["ca,0,0,0,N/A,x\nbb,0,0,0,V,z/w\n"], vec!["cc,0,0,0,P/Q,z/w\n", "ca,1,2,5,N/A,x\n"]],
        ),
    ] {
        for tmask in 1u32..16 {
            let unigram: Vec<String> = (0..2).filter(|i| tmask & (1 << i) != 0).map(|i| uni[i].to_string()).collect();
            let bigram: Vec<(String, String)> = (0..2).filter(|i| tmask & (4 << i) != 0).map(|i| (bi[i].0.to_string(), bi[i].1.to_string())).collect();
            for (ri, rw) in rewrites.iter().enumerate().take(2) {
                for (usi, us) in users.iter().enumerate() {
                    out.push(TrainCfg {
                        name: format!("{fname}/unk1/chardef0/templates{tmask:04b}/rewrite{ri}/corpus-e/user{usi}"),
                        seed: seed.iter().map(|(a, b)| (a.to_string(), b.to_string())).collect(),
                        unk: unks[0].1.iter().map(|(a, b)| (a.to_string(), b.to_string())).collect(),
                        cats: vec!["DEFAULT".into(), "SPACE".into(), "AL".into(), "KJ".into()],
                        chardef: CHARDEFS[0].to_string(),
                        unigram_templates: unigram.clone(),
                        bigram_templates: bigram.clone(),
                        rewrite: rw.to_string(),
                        corpus: corpus.to_string(),
                        users: us.iter().map(|s| s.to_string()).collect(),
                    });
                }
            }
        }
    }
    // one feature.def with nine bigram templates (more than one SIMD block in the raw connector)
    let nine: Vec<(String, String)> = (0..9).map(|i| (format!("T{i}:%L[{}]", i % 2), format!("T{i}:%R[{}]", (i + 1) % 2))).collect();
    let n0 = out.len();
    for i in (0..n0).step_by(n0 / 24 + 1) {
        let mut c = out[i].clone();
        c.bigram_templates = nine.clone();
        c.name.push_str("/nine-bigram-templates");
        out.push(c);
    }
    out
}

pub struct Gen {
    pub lex: String,
    pub matrix: String,
    pub unk: String,
    pub user: String,
}

pub fn generate(m: &mut Model) -> Result<Gen, String> {
    let (mut a, mut b, mut c, mut d) = (vec![], vec![], vec![], vec![]);
    match guard(|| m.write_dictionary(&mut a, &mut b, &mut c, &mut d)) {
        Err(p) => Err(format!("PANIC {p}")),
        Ok(Err(e)) => Err(format!("Err {e}")),
        Ok(Ok(())) => Ok(Gen {
            lex: String::from_utf8(a).map_err(|e| e.to_string())?,
            matrix: String::from_utf8(b).map_err(|e| e.to_string())?,
            unk: String::from_utf8(c).map_err(|e| e.to_string())?,
            user: String::from_utf8(d).map_err(|e| e.to_string())?,
        }),
    }
}

pub struct Bg {
    pub left: String,
    pub right: String,
    pub cost: String,
}

pub fn gen_bigram(m: &mut Model) -> Result<Bg, String> {
    let (mut l, mut r, mut c) = (vec![], vec![], vec![]);
    match guard(|| m.write_bigram_details(&mut l, &mut r, &mut c)) {
        Err(p) => Err(format!("PANIC {p}")),
        Ok(Err(e)) => Err(format!("Err {e}")),
        Ok(Ok(())) => Ok(Bg {
            left: String::from_utf8(l).map_err(|e| e.to_string())?,
            right: String::from_utf8(r).map_err(|e| e.to_string())?,
            cost: String::from_utf8(c).map_err(|e| e.to_string())?,
        }),
    }
}

/// Splits an emitted lexicon row: (unquoted first field, left, right, cost, verbatim rest).
pub fn split_row(line: &str) -> Option<(String, u32, u32, i64, String)> {
    let (surface, rest) = if let Some(body) = line.strip_prefix('"') {
        // quoted field: ends at a quote not followed by another quote
        let b: Vec<char> = body.chars().collect();
        let mut s = String::new();
        let mut i = 0;
        loop {
            if i >= b.len() {
                return None;
            }
            if b[i] == '"' {
                if i + 1 < b.len() && b[i + 1] == '"' {
                    s.push('"');
                    i += 2;
                    continue;
                }
                break;
            }
            s.push(b[i]);
            i += 1;
        }
        let rest: String = b[i + 1..].iter().collect();
        (s, rest.strip_prefix(',')?.to_string())
    } else {
        let (a, b) = line.split_once(',')?;
        (a.to_string(), b.to_string())
    };
    let mut it = rest.splitn(4, ',');
    let l = it.next()?.parse().ok()?;
    let r = it.next()?.parse().ok()?;
    let c = it.next()?.parse().ok()?;
    let f = it.next()?.to_string();
    Some((surface, l, r, c, f))
}

/// Is `c` an acceptable rendering of trunc(-w * 32767 / max)?
fn cost_ok(c: i64, w: f64, max: f64) -> bool {
    if max == 0.0 {
        return c == 0;
    }
    let x = (-w * 32767.0) / max;
    let eps = 2f64.powi(-40);
    let cands = [x, x * (1.0 - eps), x * (1.0 + eps), -w * (32767.0 / max)];
    cands.iter().any(|v| (v.trunc() as i64).clamp(-32768, 32767) == c)
}

pub struct Expected {
    pub merged: rucrf::MergedModel,
    pub max_abs: f64,
}

pub fn expected_of(raw_bytes: &[u8]) -> Result<Expected, String> {
    let (raw, _): (rucrf::RawModel, usize) = bincode::decode_from_slice(raw_bytes, bcfg()).map_err(|e| e.to_string())?;
    let merged = raw.merge().map_err(|e| e.to_string())?;
    let mut max_abs = 0f64;
    for fs in &merged.feature_sets {
        max_abs = max_abs.max(fs.weight.abs());
    }
    for hm in &merged.matrix {
        for w in hm.values() {
            max_abs = max_abs.max(w.abs());
        }
    }
    Ok(Expected { merged, max_abs })
}

/// C14 oracle on one model state.
pub fn check_c14(cfg: &TrainCfg, m: &mut Model, st: &mut Stats, tag: &str) -> bool {
    let case = |extra: serde_json::Value| json!({"kind": "trained_model", "config": cfg.describe(), "state": tag, "details": extra});
    let raw_bytes = m.verif_raw_model_bytes();
    let g = match generate(m) {
        Ok(g) => g,
        Err(e) => {
            let no_bigram_weights = bincode::decode_from_slice::<RawMirror, _>(&raw_bytes, bcfg()).map_or(false, |x| x.0.bwi.is_empty());
            if no_bigram_weights && e.contains("rucrf") && e.contains("model.rs") && is_open(&load_known_findings(), "C14", "K6") {
                st.known("K6", "a trained model without any bigram feature occurrence (empty bigram weight table): write_dictionary panics inside rucrf's RawModel::merge()");
                st.count("k6_explained");
                return false;
            }
            st.violation(Finding {
                class: format!("write_dictionary-{}", if e.starts_with("PANIC") { format!("Panic@{}", panic_site(&e[6..])) } else { "Err".into() }),
                what: format!("write_dictionary failed: {e} [{} {tag}]", cfg.name),
                replay: case(json!({})),
            });
            return false;
        }
    };
    let exp = match guard(|| expected_of(&raw_bytes)) {
        Ok(Ok(e)) => e,
        other => {
            println!("MACHINERY: cannot decode/merge the raw model: {:?}", other.map(|r| r.map(|_| ())));
            std::process::exit(2);
        }
    };
    let fail = |st: &mut Stats, class: &str, what: String| {
        st.violation(Finding {
            class: class.to_string(),
            what: format!("{what} [{} {tag}]", cfg.name),
            replay: case(json!({"lex.csv": g.lex, "matrix.def": g.matrix, "unk.def": g.unk, "user.csv": g.user})),
        });
    };
    let nr = exp.merged.right_conn_to_left_feats.len() + 1;
    let nl = exp.merged.left_conn_to_right_feats.len() + 1;
    // ---- lex.csv ----
    let seed: Vec<&(String, String)> = cfg.seed.iter().filter(|r| !r.0.is_empty()).collect();
    let lines: Vec<&str> = g.lex.lines().collect();
    if lines.len() != seed.len() {
        fail(st, "lex-row-count", format!("lex.csv has {} rows for {} seed rows", lines.len(), seed.len()));
        return false;
    }
    for (i, (line, (s, f))) in lines.iter().zip(&seed).enumerate() {
        let fs = exp.merged.feature_sets[i];
        match split_row(line) {
            Some((surf, l, r, c, feat)) => {
                if &surf != s || &feat != f {
                    fail(st, "lex-surface-or-feature-not-preserved", format!("lex.csv row {i} {:?}: expected surface {:?} feature {:?}", line, s, f));
                    return false;
                }
                if l != fs.left_id.get() || r != fs.right_id.get() {
                    fail(st, "lex-ids-not-merged-classes", format!("lex.csv row {i} {:?}: ids ({l},{r}), merged model says ({},{})", line, fs.left_id, fs.right_id));
                    return false;
                }
                if l as usize >= nl || r as usize >= nr {
                    fail(st, "lex-id-outside-matrix", format!("lex.csv row {i}: id outside {nr}x{nl}"));
                    return false;
                }
                if !cost_ok(c, fs.weight, exp.max_abs) {
                    fail(st, "lex-cost-not-scaled-weight", format!("lex.csv row {i} {:?}: cost {c}, weight {} max {}", line, fs.weight, exp.max_abs));
                    return false;
                }
                if c != 0 {
                    st.count("nonzero_costs_checked");
                }
            }
            None => {
                fail(st, "lex-row-unparsable", format!("lex.csv row {i} {:?} cannot be split", line));
                return false;
            }
        }
    }
    // ---- unk.def: grouped in category order ----
    let mut grouped: Vec<&(String, String)> = vec![];
    for c in &cfg.cats {
        grouped.extend(cfg.unk.iter().filter(|u| &u.0 == c));
    }
    let lines: Vec<&str> = g.unk.lines().collect();
    if lines.len() != grouped.len() {
        fail(st, "unk-row-count", format!("unk.def has {} rows for {} seed entries", lines.len(), grouped.len()));
        return false;
    }
    for (i, (line, (c, f))) in lines.iter().zip(&grouped).enumerate() {
        let fs = exp.merged.feature_sets[seed.len() + i];
        match split_row(line) {
            Some((cat, l, r, cost, feat)) => {
                if &cat != c || &feat != f {
                    fail(st, "unk-category-or-feature-not-preserved", format!("unk.def row {i} {:?}: expected {c},..,{f}", line));
                    return false;
                }
                if l != fs.left_id.get() || r != fs.right_id.get() || l as usize >= nl || r as usize >= nr {
                    fail(st, "unk-ids-not-merged-classes", format!("unk.def row {i} {:?}: merged model says ({},{})", line, fs.left_id, fs.right_id));
                    return false;
                }
                if !cost_ok(cost, fs.weight, exp.max_abs) {
                    fail(st, "unk-cost-not-scaled-weight", format!("unk.def row {i} {:?}: weight {} max {}", line, fs.weight, exp.max_abs));
                    return false;
                }
            }
            None => {
                fail(st, "unk-row-unparsable", format!("unk.def row {i} {:?}", line));
                return false;
            }
        }
    }
    // ---- matrix.def ----
    let mut ml = g.matrix.lines();
    let header = ml.next().unwrap_or("");
    if header != format!("{nr} {nl}") {
        fail(st, "matrix-header", format!("matrix.def header {:?}, merged model has {nr} right and {nl} left ids", header));
        return false;
    }
    let mut cells: BTreeMap<(u32, u32), i64> = BTreeMap::new();
    for line in ml {
        let p: Vec<&str> = line.split(' ').collect();
        let ok = p.len() == 3;
        let v: Vec<i64> = p.iter().filter_map(|x| x.parse().ok()).collect();
        if !ok || v.len() != 3 || cells.insert((v[0] as u32, v[1] as u32), v[2]).is_some() {
            fail(st, "matrix-line", format!("matrix.def line {:?} malformed or duplicate", line));
            return false;
        }
    }
    for (r, hm) in exp.merged.matrix.iter().enumerate() {
        for (l, w) in hm {
            match cells.remove(&(r as u32, *l)) {
                Some(c) if cost_ok(c, *w, exp.max_abs) && (-32768..=32767).contains(&c) => {}
                other => {
                    fail(st, "matrix-cost-not-scaled-weight", format!("matrix.def cell ({r},{l}) = {:?}, weight {w} max {}", other, exp.max_abs));
                    return false;
                }
            }
        }
    }
    if let Some(((r, l), c)) = cells.into_iter().find(|(_, c)| *c != 0) {
        fail(st, "matrix-extra-cell", format!("matrix.def lists ({r},{l}) = {c} which the merged model does not have"));
        return false;
    }
    // ---- user.csv ----
    let labels = m.verif_user_labels();
    let mut urows: Vec<(String, u32, u32, i64, String)> = vec![];
    for u in &cfg.users {
        for line in u.lines() {
            if let Some(r) = split_row(line) {
                urows.push(r);
            }
        }
    }
    let lines: Vec<&str> = g.user.lines().collect();
    if lines.len() != urows.len() || labels.len() != urows.len() {
        fail(st, "user-row-count", format!("user.csv has {} rows, {} user rows were read", lines.len(), urows.len()));
        return false;
    }
    // every user row's label must stand for exactly the feature set of that row: the set is
    // decoded to strings through the model's interned tables and compared with the reference
    // expansion of the (rewritten) features under the category of the row's first character
    let nsets = exp.merged.feature_sets.len();
    if let Ok((mir, _)) = bincode::decode_from_slice::<RawMirror, _>(&raw_bytes, bcfg()) {
        let cat_of = |surface: &str| -> u32 {
            let c = surface.chars().next().map_or(0, |c| c as u32);
            let mut cur = 0u32;
            for line in cfg.chardef.lines() {
                let mut it = line.split_whitespace();
                let Some(first) = it.next() else { continue };
                let Some(rest) = first.strip_prefix("0x") else { continue };
                let parsed = match rest.split_once("..0x") {
                    Some((a, b)) => u32::from_str_radix(a, 16).ok().zip(u32::from_str_radix(b, 16).ok()),
                    None => u32::from_str_radix(rest, 16).ok().map(|v| (v, v)),
                };
                if let (Some((lo, hi)), Some(name)) = (parsed, it.next()) {
                    if lo <= c && c <= hi {
                        cur = cfg.cats.iter().position(|x| x == name).unwrap_or(0) as u32;
                    }
                }
            }
            cur
        };
        let rev = |k: Kind| -> HashMap<u32, String> { m.verif_feature_ids(k).into_iter().map(|(s, i)| (i, s)).collect() };
        let (us, ls, rs) = (rev(Kind::Unigram), rev(Kind::Left), rev(Kind::Right));
        for (i, src) in urows.iter().enumerate() {
            let l = labels[i] as usize;
            if l == 0 || l > nsets || l <= seed.len() + grouped.len() {
                fail(st, "user-label-out-of-range", format!("user row {i} carries label {l} ({nsets} labels, {} of them seed/unknown)", seed.len() + grouped.len()));
                return false;
            }
            let fsm = &mir.provider.feature_sets[l - 1];
            let cells = csv_cells(&src.4);
            let cate = cat_of(&src.0);
            let uf = ref_rewrite("[unigram rewrite]", &cfg.rewrite, &cells);
            let lf = ref_rewrite("[left rewrite]", &cfg.rewrite, &cells);
            let rf = ref_rewrite("[right rewrite]", &cfg.rewrite, &cells);
            let want_u: Vec<String> = cfg.unigram_templates.iter().filter_map(|t| expand(t, 'F', true, &uf, cate)).collect();
            let want_l: Vec<Option<String>> = cfg.bigram_templates.iter().map(|t| expand(&t.0, 'L', false, &lf, 0)).collect();
            let want_r: Vec<Option<String>> = cfg.bigram_templates.iter().map(|t| expand(&t.1, 'R', false, &rf, 0)).collect();
            let got_u: Vec<String> = fsm.unigram.iter().map(|id| us.get(&id.get()).cloned().unwrap_or_else(|| format!("<unigram id {id} without string>"))).collect();
            let dec = |v: &Vec<Option<NonZeroU32>>, names: &HashMap<u32, String>| -> Vec<Option<String>> { v.iter().map(|o| o.map(|id| names.get(&id.get()).cloned().unwrap_or_else(|| format!("<id {id} without string>")))).collect() };
            let got_l = dec(&fsm.bigram_left, &ls);
            let got_r = dec(&fsm.bigram_right, &rs);
            st.count("user_feature_sets_decoded_and_compared");
            if got_u != want_u || got_l != want_l || got_r != want_r {
                fail(
                    st,
                    "user-row-feature-set-wrong",
                    format!("user row {:?} (category {cate}, features {:?}): label {l} stands for unigram {:?} left {:?} right {:?}, expected unigram {:?} left {:?} right {:?}", src.0, cells, got_u, got_l, got_r, want_u, want_l, want_r),
                );
                return false;
            }
        }
    }
    for (i, (line, src)) in lines.iter().zip(&urows).enumerate() {
        let fs = exp.merged.feature_sets[labels[i] as usize - 1];
        let Some((surf, l, r, c, feat)) = split_row(line) else {
            fail(st, "user-row-unparsable", format!("user.csv row {:?}", line));
            return false;
        };
        if surf != src.0 || feat != src.4 {
            fail(st, "user-surface-or-feature-not-preserved", format!("user.csv row {:?}, source {:?}", line, src));
            return false;
        }
        if (src.1, src.2, src.3) == (0, 0, 0) {
            st.count("user_rows_with_trained_parameters");
            if l != fs.left_id.get() || r != fs.right_id.get() || !cost_ok(c, fs.weight, exp.max_abs) || l as usize >= nl || r as usize >= nr {
                fail(st, "user-trained-parameters-wrong", format!("user.csv row {:?}: merged model says ({},{}) weight {}", line, fs.left_id, fs.right_id, fs.weight));
                return false;
            }
        } else {
            st.count("user_rows_copied_unchanged");
            if (l, r, c) != (src.1, src.2, src.3) {
                fail(st, "user-explicit-parameters-changed", format!("user.csv row {:?}: source had ({},{},{})", line, src.1, src.2, src.3));
                return false;
            }
        }
    }
    // ---- the files compile ----
    let built = guard(|| SystemDictionaryBuilder::from_readers(g.lex.as_bytes(), g.matrix.as_bytes(), cfg.chardef.as_bytes(), g.unk.as_bytes()));
    match built {
        Ok(Ok(d)) => {
            st.count("generated_dictionaries_compiled");
            // user rows with trained parameters load; explicit ids may legitimately exceed the matrix
            if !g.user.is_empty() && urows.iter().all(|r| (r.1, r.2, r.3) == (0, 0, 0)) {
                let u = g.user.clone();
                if !matches!(guard(move || d.reset_user_lexicon_from_reader(Some(u.as_bytes()))), Ok(Ok(_))) {
                    fail(st, "generated-user-lexicon-rejected", "the generated user.csv is not accepted by the generated dictionary".into());
                    return false;
                }
            }
        }
        other => {
            fail(st, "generated-files-do-not-compile", format!("the emitted files do not compile: {:?}", other.map(|r| r.map(|_| ()).map_err(|e| e.to_string()))));
            return false;
        }
    }
    true
}

/// Reference rewrite for the dictionary-level C18 check (general alternatives).
fn ref_rewrite(section: &str, rewrite_def: &str, features: &[String]) -> Vec<String> {
    let mut in_section = false;
    for line in rewrite_def.lines() {
        let line = line.trim();
        if line.is_empty() || line.starts_with('#') {
            continue;
        }
        if line.starts_with('[') {
            in_section = line == section;
            continue;
        }
        if !in_section {
            continue;
        }
        let mut it = line.split_ascii_whitespace();
        let (Some(p), Some(o)) = (it.next(), it.next()) else { continue };
        let pat: Vec<&str> = p.split(',').collect();
        if pat.len() > features.len() {
            continue;
        }
        let m = pat.iter().zip(features).all(|(a, f)| {
            if *a == "*" {
                true
            } else if a.starts_with('(') && a.ends_with(')') {
                a[1..a.len() - 1].split('|').any(|x| x == f)
            } else {
                a == f
            }
        });
        if m {
            return o
                .split(',')
                .map(|x| {
                    if let Some(n) = x.strip_prefix('$').and_then(|n| n.parse::<usize>().ok()) {
                        features.get(n - 1).cloned().unwrap_or_else(|| "*".into())
                    } else {
                        x.to_string()
                    }
                })
                .collect();
        }
    }
    features.to_vec()
}

fn csv_cells(row: &str) -> Vec<String> {
    // minimal CSV cell splitter for feature strings of the seed files
    let mut out = vec![];
    let mut cur = String::new();
    let mut q = false;
    let b: Vec<char> = row.chars().collect();
    let mut i = 0;
    while i < b.len() {
        let c = b[i];
        if q {
            if c == '"' {
                if i + 1 < b.len() && b[i + 1] == '"' {
                    cur.push('"');
                    i += 1;
                } else {
                    q = false;
                }
            } else {
                cur.push(c);
            }
        } else if c == '"' && cur.is_empty() {
            q = true;
        } else if c == ',' {
            out.push(std::mem::take(&mut cur));
        } else {
            cur.push(c);
        }
        i += 1;
    }
    out.push(cur);
    out
}

/// C18 dictionary level: connection classes and the tuples listed in bigram.left/right.
pub fn check_c18_dict(cfg: &TrainCfg, m: &mut Model, st: &mut Stats) -> bool {
    let case = |extra: serde_json::Value| json!({"kind": "trained_model", "config": cfg.describe(), "details": extra});
    let g = match generate(m) {
        Ok(g) => g,
        Err(_) => return false,
    };
    let bg = match gen_bigram(m) {
        Ok(b) => b,
        Err(e) => {
            st.violation(Finding {
                class: "write_bigram_details-fails".into(),
                what: format!("write_bigram_details failed: {e} [{}]", cfg.name),
                replay: case(json!({})),
            });
            return false;
        }
    };
    // rows: seed lexicon then unk entries (grouped), with their emitted ids
    let seed: Vec<&(String, String)> = cfg.seed.iter().filter(|r| !r.0.is_empty()).collect();
    let mut rows: Vec<(String, u32, u32)> = vec![]; // (feature string, left id, right id)
    for (line, (_, f)) in g.lex.lines().zip(&seed) {
        let Some((_, l, r, _, _)) = split_row(line) else { return false };
        rows.push((f.clone(), l, r));
    }
    let mut grouped: Vec<&(String, String)> = vec![];
    for c in &cfg.cats {
        grouped.extend(cfg.unk.iter().filter(|u| &u.0 == c));
    }
    for (line, (_, f)) in g.unk.lines().zip(&grouped) {
        let Some((_, l, r, _, _)) = split_row(line) else { return false };
        rows.push((f.clone(), l, r));
    }
    // user rows given as 0,0,0 receive connection ids from the model too (in the order read).
    // Their features are interned after training: a string the training pruned (zero weight,
    // shown as '*' for the seed words) is a new feature for them, so they form classes of their
    // own: equal tuples share an id AMONG the user rows, and the listed tuple must be theirs.
    let mut user_rows: Vec<(String, u32, u32)> = vec![];
    let user_in: Vec<(String, u32, u32, i64, String)> = cfg.users.iter().flat_map(|u| u.lines().map(|l| l.to_string()).collect::<Vec<_>>()).filter_map(|l| split_row(&l)).collect();
    let user_out: Vec<(String, u32, u32, i64, String)> = g.user.lines().filter_map(split_row).collect();
    if user_in.len() == user_out.len() {
        for (i, o) in user_in.iter().zip(&user_out) {
            if (i.1, i.2, i.3) == (0, 0, 0) {
                user_rows.push((i.4.clone(), o.1, o.2));
                st.count("user_rows_checked_for_connection_classes");
            }
        }
    }
    let parse_side = |text: &str| -> Vec<Vec<String>> { text.lines().map(|l| csv_cells(l.split_once('\t').map_or("", |x| x.1))).collect() };
    let left_file = parse_side(&bg.left); // line i <-> left id i+1, cells = right-context (%R) expansions
    let right_file = parse_side(&bg.right);
    let k = cfg.bigram_templates.len();
    let mut left_class: HashMap<Vec<Option<String>>, u32> = HashMap::new();
    let mut right_class: HashMap<Vec<Option<String>>, u32> = HashMap::new();
    let n_model_rows = rows.len();
    rows.extend(user_rows);
    for (ri, (f, l, r)) in rows.iter().enumerate() {
        if ri == n_model_rows {
            left_class.clear();
            right_class.clear();
        }
        let feats = csv_cells(f);
        let rf = ref_rewrite("[right rewrite]", &cfg.rewrite, &feats);
        let lf = ref_rewrite("[left rewrite]", &cfg.rewrite, &feats);
        let rt: Vec<Option<String>> = cfg.bigram_templates.iter().map(|t| expand(&t.1, 'R', false, &rf, 0)).collect();
        let lt: Vec<Option<String>> = cfg.bigram_templates.iter().map(|t| expand(&t.0, 'L', false, &lf, 0)).collect();
        for (side, tuple, id, classes, file) in [("left", &rt, *l, &mut left_class, &left_file), ("right", &lt, *r, &mut right_class, &right_file)] {
            st.count("rows_checked_for_connection_classes");
            if let Some(prev) = classes.get(tuple) {
                if *prev != id {
                    st.violation(Finding {
                        class: format!("equal-context-tuples-different-{side}-ids"),
                        what: format!("two words with the same expanded context tuple {:?} got {side} ids {prev} and {id} [{}]", tuple, cfg.name),
                        replay: case(json!({"lex.csv": g.lex, "unk.def": g.unk})),
                    });
                    return false;
                }
                st.count("rows_sharing_a_connection_class");
            }
            classes.insert(tuple.clone(), id);
            if k == 0 {
                continue;
            }
            let Some(listed) = file.get(id as usize - 1) else {
                st.violation(Finding {
                    class: format!("bigram-{side}-missing-id"),
                    what: format!("bigram.{side} has no line for id {id} [{}]", cfg.name),
                    replay: case(json!({"bigram.left": bg.left, "bigram.right": bg.right})),
                });
                return false;
            };
            for p in 0..k {
                let cell = listed.get(p).map(|s| s.as_str()).unwrap_or("*");
                let ok = match &tuple[p] {
                    None => cell == "*",
                    Some(s) => cell == "*" || cell == s,
                };
                if cell != "*" {
                    st.count("listed_context_features_compared");
                }
                if !ok {
                    st.violation(Finding {
                        class: format!("bigram-{side}-tuple-differs"),
                        what: format!("bigram.{side} lists {:?} for id {id} but a word carrying it expands to {:?} (position {p}) [{}]", listed, tuple, cfg.name),
                        replay: case(json!({"bigram.left": bg.left, "bigram.right": bg.right, "feature": f})),
                    });
                    return false;
                }
            }
        }
    }
    true
}

/// Builds (right, left, table) connection costs of a dictionary compiled from text files.
fn conn_table(d: &vibrato::Dictionary) -> Result<((usize, usize), Vec<i32>), String> {
    let dims = d.verif_conn_dims();
    let mut t = vec![];
    for r in 0..dims.0 {
        for l in 0..dims.1 {
            t.push(guard(|| d.verif_conn_cost(r as u16, l as u16))?);
        }
    }
    Ok((dims, t))
}

/// C16 oracle on one model state.
pub fn check_c16(cfg: &TrainCfg, m: &mut Model, kf: &[KnownFinding], st: &mut Stats, tag: &str) -> bool {
    check_c16_ordered(cfg, m, kf, st, tag, false)
}

/// `bigram_first`: write_bigram_details is called before write_dictionary.
pub fn check_c16_ordered(cfg: &TrainCfg, m: &mut Model, kf: &[KnownFinding], st: &mut Stats, tag: &str, bigram_first: bool) -> bool {
    let k = cfg.bigram_templates.len();
    if k == 0 {
        st.count("models_without_bigram_templates (no bigram dictionary)");
        return true;
    }
    let case = |extra: serde_json::Value| json!({"kind": "trained_model", "config": cfg.describe(), "state": tag, "details": extra});
    let (gr, br) = if bigram_first {
        let b = gen_bigram(m);
        (generate(m), b)
    } else {
        (generate(m), gen_bigram(m))
    };
    if let (Err(e), _) | (_, Err(e)) = (&gr, &br) {
        let raw_bytes = m.verif_raw_model_bytes();
        let no_bigram_weights = bincode::decode_from_slice::<RawMirror, _>(&raw_bytes, bcfg()).map_or(false, |x| x.0.bwi.is_empty());
        if no_bigram_weights && e.contains("rucrf") && e.contains("model.rs") && is_open(kf, "C16", "K6") {
            st.known("K6", "a trained model with an empty bigram weight table: write_dictionary / write_bigram_details panic inside rucrf's RawModel::merge()");
            st.count("k6_explained");
            return false;
        }
    }
    let (Ok(g), Ok(bg)) = (gr, br) else {
        st.violation(Finding {
            class: "generation-fails".into(),
            what: format!("write_dictionary / write_bigram_details failed [{}]", cfg.name),
            replay: case(json!({})),
        });
        return false;
    };
    let files = |extra: serde_json::Value| {
        let mut v = json!({"lex.csv": g.lex, "matrix.def": g.matrix, "unk.def": g.unk, "bigram.left": bg.left, "bigram.right": bg.right, "bigram.cost": bg.cost});
        v["details"] = extra;
        case(v)
    };
    let md = match guard(|| SystemDictionaryBuilder::from_readers(g.lex.as_bytes(), g.matrix.as_bytes(), cfg.chardef.as_bytes(), g.unk.as_bytes())) {
        Ok(Ok(d)) => d,
        _ => {
            st.violation(Finding {
                class: "matrix-dictionary-does-not-compile".into(),
                what: format!("generated matrix dictionary does not compile [{}]", cfg.name),
                replay: files(json!({})),
            });
            return false;
        }
    };
    let Ok((mdims, mt)) = conn_table(&md) else {
        st.violation(Finding {
            class: "matrix-cost-panics".into(),
            what: format!("reading the matrix connector panicked [{}]", cfg.name),
            replay: files(json!({})),
        });
        return false;
    };
    // K4 at the trainer: when all merged weights nearly cancel, the common scale factor
    // 32767/max|w| blows individual bigram.cost entries up (to i32 saturation)
    let huge_cost = bg.cost.lines().any(|l| l.rsplit('\t').next().and_then(|c| c.parse::<i64>().ok()).map_or(false, |c| c.abs() > (1 << 24)));
    for dual in [false, true] {
        let built = guard(|| {
            SystemDictionaryBuilder::from_readers_with_bigram_info(g.lex.as_bytes(), bg.right.as_bytes(), bg.left.as_bytes(), bg.cost.as_bytes(), cfg.chardef.as_bytes(), g.unk.as_bytes(), dual)
        });
        let bd = match built {
            Ok(Ok(d)) => d,
            other => {
                // K9: a bigram feature string containing '/' makes its bigram.cost lines
                // ("left/right<TAB>cost", no escaping) unreadable: the compiler rejects the file
                let msg = match &other {
                    Ok(Err(e)) => e.to_string(),
                    _ => String::new(),
                };
                let slash_feature = m.verif_feature_ids(Kind::Left).iter().chain(m.verif_feature_ids(Kind::Right).iter()).any(|(s, _)| s.contains('/'));
                let offending_line_has_two_slashes = msg.contains("The format must be right/left<tab>cost") && msg.rsplit(", ").next().map_or(false, |l| l.split('\t').next().unwrap_or("").matches('/').count() >= 2);
                if slash_feature && offending_line_has_two_slashes && is_open(kf, "C16", "K9") {
                    st.known("K9", "a bigram feature string containing '/' is written unescaped into bigram.cost ('left/right<TAB>cost'); the line then has several '/' and the raw/dual compiler rejects the emitted file");
                    st.count("k9_explained");
                    return true;
                }
                st.violation(Finding {
                    class: format!("bigram-dictionary-does-not-compile-{}", if dual { "dual" } else { "raw" }),
                    what: format!("the emitted bigram files do not compile ({}): {:?} [{}]", if dual { "dual" } else { "raw" }, other.map(|r| r.map(|_| ()).map_err(|e| e.to_string())), cfg.name),
                    replay: files(json!({})),
                });
                return false;
            }
        };
        let (bdims, bt) = match conn_table(&bd) {
            Ok(x) => x,
            Err(p) => {
                if huge_cost && p.contains("overflow") && is_open(kf, "C16", "K4") {
                    st.known("K4", "bigram.cost entries of magnitude above 2^24 (scale factor blown up by cancelling merged weights): summing them overflows i32");
                    st.count("k4_explained");
                    return true;
                }
                st.violation(Finding {
                    class: format!("bigram-cost-Panic@{}", panic_site(&p)),
                    what: format!("reading a connection cost of the compiled bigram dictionary panicked: {p} [{} {tag}]", cfg.name),
                    replay: files(json!({})),
                });
                return false;
            }
        };
        if bdims != mdims {
            st.violation(Finding {
                class: "bigram-and-matrix-dimensions-differ".into(),
                what: format!("bigram files describe {:?} ids, matrix.def {:?} [{}]", bdims, mdims, cfg.name),
                replay: files(json!({})),
            });
            return false;
        }
        st.count(if dual { "dual_dictionaries_compared" } else { "raw_dictionaries_compared" });
        let mut worst = 0i64;
        let mut worst_at = (0, 0);
        for r in 0..mdims.0 {
            for l in 0..mdims.1 {
                st.count("id_pairs_compared");
                let d = (i64::from(bt[r * mdims.1 + l]) - i64::from(mt[r * mdims.1 + l])).abs();
                if d > worst {
                    worst = d;
                    worst_at = (r, l);
                }
                if mt[r * mdims.1 + l] != 0 {
                    st.count("id_pairs_with_nonzero_matrix_cost");
                }
            }
        }
        // K7: the dual connector clamps its pre-summed part (the K-8 templates kept in the matrix)
        // to 16 bits; an emitted bigram.cost entry (or sum of entries) beyond 16 bits then deviates.
        // Explained iff raw is within the bound and some choice of K-8 positions reproduces the
        // dual value exactly with the clamp applied.
        let k7 = dual && worst > k as i64 + 1 && k > 8 && {
            let parse_side = |text: &str| -> Vec<Vec<String>> { text.lines().map(|l| csv_cells(l.split_once('\t').map_or("", |x| x.1))).collect() };
            let model = crate::refmodel::Bigram {
                right: parse_side(&bg.right),
                left: parse_side(&bg.left),
                cost: bg.cost.lines().filter_map(|l| {
                    let (f, c) = l.split_once('\t')?;
                    let (a, b) = f.split_once('/')?;
                    Some((a.to_string(), b.to_string(), c.parse().ok()?))
                }).collect(),
            };
            let (r, l) = worst_at;
            let c = model.contribs(r, l);
            let total: i64 = c.iter().sum();
            let got = i64::from(bt[r * mdims.1 + l]);
            let m = k - 8;
            // enumerate subsets of size m of the k positions
            fn subsets(n: usize, m: usize, start: usize, cur: &mut Vec<usize>, f: &mut dyn FnMut(&[usize]) -> bool) -> bool {
                if cur.len() == m {
                    return f(cur);
                }
                for i in start..n {
                    cur.push(i);
                    if subsets(n, m, i + 1, cur, f) {
                        return true;
                    }
                    cur.pop();
                }
                false
            }
            let within_raw = (total - i64::from(mt[r * mdims.1 + l])).abs() <= k as i64 + 1;
            within_raw && k <= 17 && subsets(c.len(), m, 0, &mut vec![], &mut |s| {
                let pre: i64 = s.iter().map(|&p| c[p]).sum();
                pre != pre.clamp(-32768, 32767) && total - pre + pre.clamp(-32768, 32767) == got
            })
        };
        if k7 && is_open(kf, "C16", "K7") {
            st.known("K7", "dual connector: the pre-summed part of an emitted bigram model exceeds 16 bits and is clamped, so the cost deviates from matrix.def by more than K+1");
            st.count("k7_explained");
        } else if worst > k as i64 + 1 && huge_cost && is_open(kf, "C16", "K4") {
            st.known("K4", "bigram.cost entries of magnitude above 2^24 (scale factor blown up by cancelling merged weights): the K+1 bound is lost to i32 saturation");
            st.count("k4_explained");
        } else if worst > k as i64 + 1 {
            // K3: a feature string that is literally '*' is listed in bigram.cost and matched
            // against the "no feature" placeholder of bigram.left/right
            let star_listed = bg.cost.lines().any(|l| {
                let f = l.split('\t').next().unwrap_or("");
                f.split('/').any(|x| x == "*")
            });
            // K8: a bigram feature whose expansion is the empty string is written exactly like the
            // reserved BOS/EOS feature (empty cell in bigram.left/right, empty side in bigram.cost)
            let rs: HashMap<u32, String> = m.verif_feature_ids(Kind::Right).into_iter().map(|(s, i)| (i, s)).collect();
            let ls: HashMap<u32, String> = m.verif_feature_ids(Kind::Left).into_iter().map(|(s, i)| (i, s)).collect();
            let raw_bytes = m.verif_raw_model_bytes();
            let raw = bincode::decode_from_slice::<RawMirror, _>(&raw_bytes, bcfg()).ok().map(|x| x.0);
            let exp = expected_of(&raw_bytes).ok();
            let empty_named = match (&raw, &exp) {
                (Some(raw), Some(exp)) => {
                    let used_l = exp.merged.right_conn_to_left_feats.iter().flatten().flatten().any(|id| ls.get(&id.get()).map_or(false, |s| s.is_empty()));
                    let used_r = exp.merged.left_conn_to_right_feats.iter().flatten().flatten().any(|id| rs.get(&id.get()).map_or(false, |s| s.is_empty()));
                    let weighted = raw.bwi.iter().enumerate().any(|(lf, v)| {
                        v.iter().any(|(rf, _)| (lf != 0 && ls.get(&(lf as u32)).map_or(false, |s| s.is_empty())) || (*rf != 0 && rs.get(rf).map_or(false, |s| s.is_empty())))
                    });
                    used_l || used_r || weighted
                }
                _ => false,
            };
            // K5: a connection id without any feature (virtual edge) is written as an empty row,
            // which reads back as the BOS/EOS feature
            let empty_row = bg.left.lines().chain(bg.right.lines()).any(|l| l.ends_with('\t'));
            // K3 / K8 explain the discrepancy completely iff (B) the real table equals the
            // string-level sum over the emitted files read literally ('*' in a listed pair is an
            // ordinary feature named '*', an empty string is the BOS/EOS feature), and (A) the sum
            // over the model's TRUE tuples and TRUE feature-pair weights (taken from the raw model,
            // where the placeholder, the literal '*', the BOS/EOS feature and a feature named ""
            // are all distinct) is within K+1 of matrix.def.
            let k38_exact = (star_listed || empty_named) && {
                let parse_side = |text: &str| -> Vec<Vec<String>> { text.lines().map(|l| csv_cells(l.split_once('\t').map_or("", |x| x.1))).collect() };
                let model = crate::refmodel::Bigram {
                    right: parse_side(&bg.right),
                    left: parse_side(&bg.left),
                    cost: bg.cost.lines().filter_map(|l| {
                        let (f, c) = l.split_once('\t')?;
                        let (a, b) = f.split_once('/')?;
                        Some((a.to_string(), b.to_string(), c.parse().ok()?))
                    }).collect(),
                };
                let a_table = match (&raw, &exp) {
                    (Some(raw), Some(exp)) => {
                        let name = |names: &HashMap<u32, String>, id: u32| -> String {
                            match names.get(&id).map(|s| s.as_str()) {
                                None => "*".to_string(),
                                Some("*") => "\u{1}STAR".to_string(),
                                Some("") => "\u{1}EMPTY".to_string(),
                                Some(s) => s.to_string(),
                            }
                        };
                        let conv = |rows: &Vec<Vec<Option<NonZeroU32>>>, names: &HashMap<u32, String>| -> Vec<Vec<String>> {
                            rows.iter().map(|r| r.iter().map(|c| match c {
                                None => "*".to_string(),
                                Some(id) => name(names, id.get()),
                            }).collect()).collect()
                        };
                        let scale = 32767.0 / exp.max_abs;
                        let mut cost = vec![];
                        for (lf, v) in raw.bwi.iter().enumerate() {
                            for (rf, widx) in v {
                                let a = if lf == 0 { String::new() } else { name(&ls, lf as u32) };
                                let b = if *rf == 0 { String::new() } else { name(&rs, *rf) };
                                let w = raw.weights[*widx as usize];
                                cost.push((a, b, (-w * scale) as i32));
                            }
                        }
                        let truth = crate::refmodel::Bigram {
                            // bigram.right lists, per right id, the features of the left word (left feature ids)
                            right: conv(&exp.merged.right_conn_to_left_feats, &ls),
                            left: conv(&exp.merged.left_conn_to_right_feats, &rs),
                            cost,
                        };
                        truth.table().2
                    }
                    _ => vec![],
                };
                let mut quirk = model.clone();
                let ren = |s: &mut String| if s == "*" { *s = "\u{1}STAR".to_string() };
                quirk.right.iter_mut().flatten().for_each(ren);
                quirk.left.iter_mut().flatten().for_each(ren);
                quirk.cost.iter_mut().for_each(|c| { ren(&mut c.0); ren(&mut c.1); });
                // ragged rows stay "absent" (no feature) in both variants
                let (_, _, b_table) = quirk.table();
                b_table == bt && a_table.len() == mt.len() && a_table.iter().zip(&mt).all(|(a, m)| (i64::from(*a) - i64::from(*m)).abs() <= k as i64 + 1)
            };
            if k38_exact && empty_named && is_open(kf, "C16", "K8") {
                st.known("K8", "a bigram feature that expands to the empty string is written like the reserved BOS/EOS feature (empty cell, empty side of a bigram.cost pair), so the compiled bigram dictionary adds BOS/EOS costs to ordinary pairs and vice versa");
                st.count("k8_explained");
            } else if k38_exact && !empty_named && is_open(kf, "C16", "K3") {
                st.known("K3", "a bigram feature that expands to the literal '*' is listed in bigram.cost and then matches the '*' placeholder of every connection id");
                st.count("k3_explained");
            } else if empty_row && is_open(kf, "C16", "K5") {
                st.known("K5", "a connection id without features (virtual edge / feature-less user word) is written as an empty row in bigram.left/right, which is read back as the BOS/EOS feature");
                st.count("k5_explained");
            } else {
                let (r, l) = worst_at;
                st.violation(Finding {
                    class: format!("bigram-vs-matrix-{}", if r == 0 || l == 0 { "bos-eos" } else { "inner" }),
                    what: format!(
                        "{} connector: cost({r},{l}) = {} from the bigram files vs {} in matrix.def (K = {k}, allowed difference {}) [{} {tag}]",
                        if dual { "dual" } else { "raw" },
                        bt[r * mdims.1 + l],
                        mt[r * mdims.1 + l],
                        k + 1,
                        cfg.name
                    ),
                    replay: files(json!({"pair": [r, l]})),
                });
                return false;
            }
        } else if mdims.0 >= 3 || mdims.1 >= 3 {
            // "can stand in": the usual next step on a compiled dictionary is the connection-id
            // reordering; the mapped bigram dictionary must still agree with the equally mapped matrix
            let rot = |n: usize| -> Vec<u16> { (1..n).map(|i| if i + 1 < n { (i + 1) as u16 } else { 1 }).collect() };
            let (rmap, lmap) = (rot(mdims.0), rot(mdims.1));
            // the i-th item (1-origin) of a mapping is the old id that becomes id i
            let new_of = |map: &Vec<u16>, old: usize| if old == 0 { 0 } else { map.iter().position(|&o| o as usize == old).unwrap() + 1 };
            let mapped = guard(|| bd.map_connection_ids_from_iter(lmap.iter().cloned(), rmap.iter().cloned()));
            let table = match mapped {
                Ok(Ok(d2)) => conn_table(&d2).ok().filter(|x| x.0 == mdims).map(|x| x.1),
                _ => None,
            };
            let Some(bt2) = table else {
                st.violation(Finding {
                    class: "mapped-bigram-dictionary-unusable".into(),
                    what: format!("{} dictionary compiled from the bigram files: mapping its connection ids failed or changed its dimensions [{} {tag}]", if dual { "dual" } else { "raw" }, cfg.name),
                    replay: files(json!({"lmap": lmap, "rmap": rmap})),
                });
                return false;
            };
            st.count("mapped_bigram_dictionaries_compared");
            for r in 0..mdims.0 {
                for l in 0..mdims.1 {
                    let (nr, nl) = (new_of(&rmap, r), new_of(&lmap, l));
                    let got = i64::from(bt2[nr * mdims.1 + nl]);
                    let want = i64::from(mt[r * mdims.1 + l]);
                    if (got - want).abs() > k as i64 + 1 {
                        st.violation(Finding {
                            class: "mapped-bigram-vs-matrix".into(),
                            what: format!(
                                "{} connector after mapping ids (rotation): cost({nr},{nl}) = {got} but matrix.def has {want} for the original pair ({r},{l}) (K = {k}) [{} {tag}]",
                                if dual { "dual" } else { "raw" },
                                cfg.name
                            ),
                            replay: files(json!({"pair": [r, l], "lmap": lmap, "rmap": rmap})),
                        });
                        return false;
                    }
                }
            }
        }
    }
    true
}

/// Injects a weight vector into the model (through the public codec of the raw model).
pub fn inject(m: &mut Model, f: &dyn Fn(usize, f64) -> f64) -> bool {
    let bytes = m.verif_raw_model_bytes();
    let Ok((mut raw, _)) = bincode::decode_from_slice::<RawMirror, _>(&bytes, bcfg()) else {
        println!("MACHINERY: raw model mirror does not decode");
        std::process::exit(2);
    };
    let re = bincode::encode_to_vec(&raw, bcfg()).unwrap();
    if re != bytes {
        println!("MACHINERY: raw model mirror is not byte-faithful");
        std::process::exit(2);
    }
    for (i, w) in raw.weights.iter_mut().enumerate() {
        *w = f(i, *w);
    }
    let nb = bincode::encode_to_vec(&raw, bcfg()).unwrap();
    m.verif_replace_raw_model(&nb).is_ok()
}

const ALPHA: [f64; 4] = [-1.0, -0.37, 0.5, 1.0];

#[derive(Clone, Copy, PartialEq, Eq)]
pub enum Which {
    C14,
    C16,
    C18,
}

pub fn run_family(which: Which, tier: Tier, st: &mut Stats, kf: &[KnownFinding]) {
    let fam = family(tier);
    let max_iter = tier.pick(5, 30);
    let res = par_explore(fam.len(), |i, st| {
        let cfg = &fam[i];
        st.states += 1;
        st.transitions += 1;
        let mut m = match train(cfg, max_iter) {
            Ok(m) => m,
            Err(e) => {
                st.violation(Finding {
                    class: format!("training-fails-{}", if e.starts_with("PANIC") { format!("Panic@{}", panic_site(&e[6..])) } else { "Err".to_string() }),
                    what: format!("training configuration {} failed: {e}", cfg.name),
                    replay: json!({"kind": "trained_model", "config": cfg.describe()}),
                });
                return;
            }
        };
        st.count("models_trained");
        st.count(&format!("models_with_{}_bigram_templates", cfg.bigram_templates.len()));
        let nweights = {
            let b = m.verif_raw_model_bytes();
            bincode::decode_from_slice::<RawMirror, _>(&b, bcfg()).map(|x| x.0.weights.len()).unwrap_or(0)
        };
        st.outcome(&(i, nweights));
        let mut ok = match which {
            Which::C14 => check_c14(cfg, &mut m, st, "trained"),
            Which::C16 => check_c16(cfg, &mut m, kf, st, "trained"),
            Which::C18 => check_c18_dict(cfg, &mut m, st),
        };
        // C16: the same configuration with the user lexicons read AFTER a first export, and the
        // bigram files then written BEFORE the dictionary files (any order of the two writers must
        // describe the same model)
        if ok && !cfg.users.is_empty() && which == Which::C16 && (tier == Tier::Thorough || i % 2 == 0) {
            let mut bare = cfg.clone();
            bare.users.clear();
            if let Ok(mut m0) = train(&bare, max_iter) {
                let exported = generate(&mut m0).is_ok() && gen_bigram(&mut m0).is_ok();
                let mut good = exported;
                for u in &cfg.users {
                    good = good && matches!(guard(|| m0.read_user_lexicon(u.as_bytes())), Ok(Ok(())));
                }
                if good {
                    st.states += 1;
                    st.transitions += 1;
                    st.count("models_exported_before_reading_user_lexicons");
                    ok = check_c16_ordered(cfg, &mut m0, kf, st, "exported, then user lexicons read, bigram files written first", true);
                }
            }
        }
        // a user lexicon that is REJECTED (a valid 0,0,0 row, an explicit row, then a malformed
        // record) must leave the model as it was: the files generated afterwards are the same
        if ok && which != Which::C18 && (tier == Tier::Thorough || i % 3 == 0) {
            let before = (generate(&mut m), gen_bigram(&mut m));
            let bad = "rejected-a,0,0,0,N,x\nrejected-b,1,1,7,V,y\nbroken,1\n";
            let r = guard(|| m.read_user_lexicon(bad.as_bytes()));
            st.states += 1;
            st.transitions += 1;
            st.count("rejected_user_lexicons");
            let after = (generate(&mut m), gen_bigram(&mut m));
            let same = match (&before, &after) {
                ((Ok(a), Ok(b)), (Ok(c), Ok(d))) => a.lex == c.lex && a.matrix == c.matrix && a.unk == c.unk && a.user == c.user && b.left == d.left && b.right == d.right && {
                    let (mut x, mut y): (Vec<&str>, Vec<&str>) = (b.cost.lines().collect(), d.cost.lines().collect());
                    x.sort();
                    y.sort();
                    x == y
                },
                ((Err(_), _), (Err(_), _)) | ((_, Err(_)), (_, Err(_))) => true,
                _ => false,
            };
            if !matches!(r, Ok(Err(_))) || !same {
                st.violation(Finding {
                    class: if matches!(r, Ok(Err(_))) { "rejected-user-lexicon-changes-the-model".into() } else { "malformed-user-lexicon-not-rejected".into() },
                    what: format!("read_user_lexicon with a malformed file returned {:?}; generated files {} afterwards [{}]", r.as_ref().map(|x| x.as_ref().map_err(|e| e.to_string())), if same { "unchanged" } else { "CHANGED" }, cfg.name),
                    replay: json!({"kind": "trained_model", "config": cfg.describe(), "rejected_user_lexicon": bad}),
                });
                ok = false;
            } else if which == Which::C16 {
                ok = check_c16(cfg, &mut m, kf, st, "after a rejected user lexicon");
            }
        }
        // C16: a model saved WITH its user lexicons and reloaded (the reloaded model still holds the
        // user labels' feature sets but no user entries)
        if ok && !cfg.users.is_empty() && which == Which::C16 && (tier == Tier::Thorough || i % 2 == 1) {
            if let Ok(mut m1) = roundtrip(&m) {
                st.states += 1;
                st.transitions += 1;
                st.count("models_saved_with_user_lexicons_and_reloaded");
                ok = check_c16(cfg, &mut m1, kf, st, "saved with its user lexicons and reloaded");
            }
        }
        // the same configuration with the user lexicons read AFTER a write_model/read_model round
        // trip of the trained model (ids handed out by the reloaded feature tables)
        if ok && !cfg.users.is_empty() && which != Which::C16 {
            let mut bare = cfg.clone();
            bare.users.clear();
            if let Ok(m0) = train(&bare, max_iter) {
                if let Ok(mut m1) = roundtrip(&m0) {
                    let mut good = true;
                    for u in &cfg.users {
                        good &= matches!(guard(|| m1.read_user_lexicon(u.as_bytes())), Ok(Ok(())));
                    }
                    if good {
                        st.states += 1;
                        st.transitions += 1;
                        st.count("models_reloaded_before_reading_user_lexicons");
                        ok = match which {
                            Which::C14 => check_c14(cfg, &mut m1, st, "reloaded, then user lexicons read"),
                            Which::C18 => check_c18_dict(cfg, &mut m1, st),
                            Which::C16 => true,
                        };
                    }
                }
            }
        }
        if !ok || which == Which::C18 {
            return;
        }
        // injected weights: every assignment of the first n weights from the alphabet, the rest
        // following a fixed non-zero pattern
        let n = (if which == Which::C16 { tier.pick(3, 4) } else { tier.pick(3, 5) }).min(nweights);
        if nweights == 0 {
            st.count("models_without_weights");
            return;
        }
        let combos = ALPHA.len().pow(n as u32);
        // quick tier: the product for every 4th model, a diagonal for the others
        let full = tier == Tier::Thorough || i % 4 == 0;
        for c in 0..combos {
            if !full && c % 7 != 0 {
                continue;
            }
            st.states += 1;
            st.transitions += 1;
            if !inject(&mut m, &|j, _| if j < n { ALPHA[(c / ALPHA.len().pow(j as u32)) % ALPHA.len()] } else { [0.25, -0.6, 0.0, 0.8125][j % 4] * (1.0 + (j % 5) as f64 * 0.1) }) {
                println!("MACHINERY: injected model does not decode");
                std::process::exit(2);
            }
            st.count("weight_vectors_injected");
            let tag = format!("weights#{c}");
            let ok = match which {
                Which::C14 => check_c14(cfg, &mut m, st, &tag),
                Which::C16 => check_c16(cfg, &mut m, kf, st, &tag),
                Which::C18 => true,
            };
            if !ok {
                return;
            }
        }
        if i % 397 == 0 {
            st.sample(json!({"config": cfg.name, "weights": nweights, "feature.def": cfg.featdef_text(), "corpus": cfg.corpus}));
        }
    });
    st.merge(res);
}

pub fn run_c14(tier: Tier) -> i32 {
    let mut rep = Report::new("C14", tier);
    let kf = load_known_findings();
    let mut st = Stats::default();
    run_family(Which::C14, tier, &mut st, &kf);
    rep.rule = "state = (training configuration: 3 seed lexicons x 2 unk.def x 2 char.def x all 31 non-empty subsets of a 5-template feature.def menu x 2 rewrite.def x 4 corpora (incl. unknown-compatible token and virtual edge) x 4 user-lexicon settings, really trained) and then (weight vector injected into the trained structure: every assignment of the first 3/5 weights from {-1,-0.37,0.5,1}); oracle recomputed from the raw model through rucrf's public merge(): row count/order, surfaces, verbatim features, unk rows in category order, ids = merged classes inside the matrix dimensions, every cost = trunc(-w*32767/max|w|), matrix cells, user rows (trained only for 0,0,0), and the files compile; distinct = distinct (configuration, weight count)".into();
    rep.bounds = json!({"max_iter": tier.pick(5, 30), "injected_weights": tier.pick(3, 5), "family": tier.pick("deterministic half of the product (every axis value present)", "full product")});
    rep.assumptions = vec!["rucrf (CRF optimiser and merge()) is a trusted dependency; the optimiser is treated as environment".into(), "costs are accepted within one unit exactly at integer boundaries of -w*32767/max (operation order of the two float operations is not fixed by the statement)".into()];
    rep.finish(st, &["models_trained", "weight_vectors_injected", "nonzero_costs_checked", "user_rows_with_trained_parameters", "user_rows_copied_unchanged", "generated_dictionaries_compiled"])
}

pub fn run_c16(tier: Tier) -> i32 {
    let mut rep = Report::new("C16", tier);
    let kf = load_known_findings();
    let mut st = Stats::default();
    run_family(Which::C16, tier, &mut st, &kf);
    rep.rule = "state = (training configuration of the C14 family, really trained; then injected weight vectors); the emitted (lex, bigram.left/right/cost) files are compiled with the raw and the dual connector and (lex, matrix.def) with the matrix connector; for every id pair incl. row/column 0 the costs must differ by at most K+1, and the dimensions must agree; the compiled raw/dual dictionary is then id-mapped (rotation of both sides) and must agree, pair by pair, with the equally permuted matrix.def; configurations with user lexicons are also run as (train without them, export, read the user lexicons, write_bigram_details BEFORE write_dictionary) and as (trained with them, write_model, read_model); distinct = distinct (configuration, weight count)".into();
    rep.bounds = json!({"max_iter": tier.pick(5, 30), "injected_weights": tier.pick(3, 5), "K": "0-3"});
    rep.finish(st, &["models_trained", "raw_dictionaries_compared", "dual_dictionaries_compared", "mapped_bigram_dictionaries_compared", "models_exported_before_reading_user_lexicons", "models_saved_with_user_lexicons_and_reloaded", "id_pairs_with_nonzero_matrix_cost", "weight_vectors_injected"])
}

/// C17 at the dictionary level: configurations whose rewrite.def has sections with and without
/// catch-all rules; the connection classes and the listed tuples must be those of the reference
/// rewrite ("first matching rule of the section, else the features unchanged") + expansion.
pub fn dict_level_c17(tier: Tier, st: &mut Stats) {
    let mut fam = family(tier);
    fam.retain(|c| !c.rewrite.is_empty() && c.users.is_empty() && !c.bigram_templates.is_empty());
    let stride = tier.pick(5, 1);
    let fam: Vec<TrainCfg> = fam.into_iter().enumerate().filter(|(i, _)| i % stride == 0).map(|x| x.1).collect();
    let max_iter = tier.pick(5, 30);
    let res = par_explore(fam.len(), |i, st| {
        let cfg = &fam[i];
        let Ok(mut m) = train(cfg, max_iter) else { return };
        st.states += 1;
        st.transitions += 1;
        st.count("trained_models_with_rewrite_rules");
        check_c18_dict(cfg, &mut m, st);
    });
    st.merge(res);
}

pub fn dict_level_c18(tier: Tier, st: &mut Stats) {
    let kf = load_known_findings();
    run_family(Which::C18, tier, st, &kf);
}

#[allow(dead_code)]
pub fn kind_name(k: Kind) -> &'static str {
    match k {
        Kind::Unigram => "unigram",
        Kind::Left => "left",
        Kind::Right => "right",
    }
}

// ---------------------------------------------------------------------------------------------
// C15: a trained model round-trips through write_model/read_model
// ---------------------------------------------------------------------------------------------

#[derive(Clone, Copy, Debug, PartialEq, Eq)]
enum MOp {
    Generate,
    GenerateBigram,
    WriteRead,
    AddUser(usize),
}

const USER_MENU: [&str; 3] = ["ac,0,0,0,N,x\nca,0,0,0,V,new\n", "\"x,y\",1,2,-5,Q,q\nbb,0,0,0,V,y\n", "cc,1,1,77,Z,q9\n"];

#[derive(PartialEq, Clone, Debug)]
struct DictOut {
    lex: String,
    matrix: String,
    unk: String,
    user: String,
}

#[derive(PartialEq, Clone, Debug)]
struct BgOut {
    left: String,
    right: String,
    cost: Vec<String>,
}

#[derive(PartialEq, Clone, Debug)]
struct Outputs {
    dict: DictOut,
    bg: BgOut,
}

fn dict_out(m: &mut Model) -> Result<DictOut, String> {
    let g = generate(m)?;
    Ok(DictOut { lex: g.lex, matrix: g.matrix, unk: g.unk, user: g.user })
}

fn bg_out(m: &mut Model) -> Result<BgOut, String> {
    let b = gen_bigram(m)?;
    let mut cost: Vec<String> = b.cost.lines().map(|s| s.to_string()).collect();
    cost.sort();
    Ok(BgOut { left: b.left, right: b.right, cost })
}

fn outputs(m: &mut Model) -> Result<Outputs, String> {
    Ok(Outputs { dict: dict_out(m)?, bg: bg_out(m)? })
}

/// The user lexicons of the C15 operation alphabet (per configuration: the empty-cell family
/// gets rows whose feature cells are empty).
fn user_menu(cfg: &TrainCfg) -> [&'static str; 3] {
    if cfg.name.starts_with("emptycell") {
        ["ca,0,0,0,N,\nbb,0,0,0,,z\n", USER_MENU[1], "cc,0,0,0,,\n"]
    } else if cfg.name.starts_with("nonascii") {
        ["ca,0,0,0,N,*\nbb,0,0,0,V,y\n", USER_MENU[1], "cc,0,0,0,Q,*\n"]
    } else if cfg.name.starts_with("hashcell") {
        ["ca,0,0,0,#,x\nbb,0,0,0,V,#\n", USER_MENU[1], "cc,0,0,0,#,#\n"]
    } else {
        USER_MENU
    }
}

fn roundtrip(m: &Model) -> Result<Model, String> {
    let mut buf = vec![];
    match guard(|| m.write_model(&mut buf)) {
        Ok(Ok(n)) if n == buf.len() => {}
        Ok(Ok(n)) => return Err(format!("write_model reported {n} bytes, wrote {}", buf.len())),
        other => return Err(format!("write_model failed: {:?}", other.map(|r| r.map_err(|e| e.to_string())))),
    }
    match guard(|| Model::read_model(&*buf)) {
        Ok(Ok(m)) => Ok(m),
        Ok(Err(e)) => Err(format!("read_model: {e}")),
        Err(p) => Err(format!("read_model PANIC {p}")),
    }
}

/// One state of the C15 exploration: the in-memory model, its reloaded twin (once a round trip
/// happened) and what the oracle needs to remember.
struct MState {
    a: Model,
    t: Option<Model>,
    users_before_split: bool,
    users_added_to_twin: bool,
    last_dict: Option<DictOut>,
    last_bg: Option<BgOut>,
}

impl MState {
    /// Copy made with the `verif_twin` hook (field by field, not through the model codec).
    fn copy(&self) -> Result<MState, String> {
        let a = self.a.verif_twin().map_err(|e| e.to_string())?;
        let t = match &self.t {
            None => None,
            Some(t) => Some(t.verif_twin().map_err(|e| e.to_string())?),
        };
        Ok(MState { a, t, users_before_split: self.users_before_split, users_added_to_twin: self.users_added_to_twin, last_dict: self.last_dict.clone(), last_bg: self.last_bg.clone() })
    }

    /// Applies one operation to both models in lock-step; Err((class, what)) on an oracle failure.
    fn step(&mut self, op: MOp, k: usize, menu: &[&str; 3], st: &mut Stats) -> Result<(), (String, String)> {
        match op {
            MOp::WriteRead => {
                if self.t.is_some() && self.users_added_to_twin {
                    // re-loading the twin drops its user entries (session state)
                    self.users_before_split = true;
                }
                let src = self.t.as_ref().unwrap_or(&self.a);
                match roundtrip(src) {
                    Ok(m) => self.t = Some(m),
                    Err(e) => return Err(("model-roundtrip-fails".into(), format!("step {k}: {e}"))),
                }
                st.count("roundtrips");
            }
            MOp::AddUser(i) => {
                if self.t.is_none() {
                    self.users_before_split = true;
                } else {
                    self.users_added_to_twin = true;
                }
                let a = &mut self.a;
                let r1 = guard(|| a.read_user_lexicon(menu[i].as_bytes()));
                let r2 = self.t.as_mut().map(|t| guard(|| t.read_user_lexicon(menu[i].as_bytes())));
                if !matches!(r1, Ok(Ok(()))) || r2.map_or(false, |r| !matches!(r, Ok(Ok(())))) {
                    return Err(("read_user_lexicon-fails".into(), format!("step {k}")));
                }
                self.last_dict = None;
                self.last_bg = None;
                st.count("user_lexicons_added");
            }
            MOp::Generate => {
                // write_dictionary only
                let oa = dict_out(&mut self.a).map_err(|e| ("generation-fails".to_string(), format!("step {k}: {e}")))?;
                if let Some(prev) = &self.last_dict {
                    if *prev != oa {
                        return Err(("generating-twice-differs".into(), format!("step {k}: write_dictionary again from the same model gives different files")));
                    }
                    st.count("repeated_generations_compared");
                }
                self.last_dict = Some(oa.clone());
                if let Some(tm) = self.t.as_mut() {
                    let ot = dict_out(tm).map_err(|e| ("generation-from-reloaded-model-fails".to_string(), format!("step {k}: {e}")))?;
                    st.count("reloaded_vs_in_memory_generations_compared");
                    let mut diff = vec![];
                    if oa.lex != ot.lex {
                        diff.push("lex.csv");
                    }
                    if oa.matrix != ot.matrix {
                        diff.push("matrix.def");
                    }
                    if oa.unk != ot.unk {
                        diff.push("unk.def");
                    }
                    if !self.users_before_split && oa.user != ot.user {
                        diff.push("user.csv");
                    }
                    if !diff.is_empty() {
                        return Err((format!("reloaded-model-generates-different-{}", diff[0]), format!("step {k}: files differ between the in-memory model and its reloaded twin: {:?}", diff)));
                    }
                }
            }
            MOp::GenerateBigram => {
                // write_bigram_details only (it may come before or after write_dictionary)
                let oa = bg_out(&mut self.a).map_err(|e| ("generation-fails".to_string(), format!("step {k}: {e}")))?;
                if let Some(prev) = &self.last_bg {
                    if *prev != oa {
                        return Err(("generating-twice-differs".into(), format!("step {k}: write_bigram_details again from the same model gives different files")));
                    }
                    st.count("repeated_bigram_generations_compared");
                }
                self.last_bg = Some(oa.clone());
                if let Some(tm) = self.t.as_mut() {
                    let ot = bg_out(tm).map_err(|e| ("generation-from-reloaded-model-fails".to_string(), format!("step {k}: {e}")))?;
                    st.count("reloaded_vs_in_memory_bigram_generations_compared");
                    let mut diff = vec![];
                    if oa.left != ot.left {
                        diff.push("bigram.left");
                    }
                    if oa.right != ot.right {
                        diff.push("bigram.right");
                    }
                    if oa.cost != ot.cost {
                        diff.push("bigram.cost");
                    }
                    if !diff.is_empty() {
                        return Err((format!("reloaded-model-generates-different-{}", diff[0]), format!("step {k}: files differ between the in-memory model and its reloaded twin: {:?}", diff)));
                    }
                }
            }
        }
        // both halves present for the current model state: they must describe the same id spaces
        if let (Some(d), Some(b)) = (&self.last_dict, &self.last_bg) {
            let hdr: Vec<usize> = d.matrix.lines().next().unwrap_or("").split(' ').filter_map(|x| x.parse().ok()).collect();
            let max_id = |t: &str| t.lines().filter_map(|l| l.split('\t').next()?.parse::<usize>().ok()).max().map_or(1, |m| m + 1);
            if hdr.len() == 2 && !(b.left.is_empty() && b.right.is_empty()) {
                st.count("dictionary_and_bigram_id_spaces_compared");
                // bigram.right lists the right ids (matrix rows), bigram.left the left ids
                if hdr[0] != max_id(&b.right) || hdr[1] != max_id(&b.left) {
                    return Err(("bigram-files-and-matrix-describe-different-id-spaces".into(), format!("step {k}: matrix.def header {:?} but bigram.right lists {} and bigram.left {} ids", hdr, max_id(&b.right), max_id(&b.left))));
                }
            }
        }
        Ok(())
    }
}

/// Depth-first exploration of all operation histories from one trained model; every node is
/// reached by copying its parent's state (no retraining) and applying one operation.
fn c15_dfs(cfg: &TrainCfg, ci: usize, node: &MState, hist: &mut Vec<MOp>, ops: &[MOp], depth: usize, k6_open: bool, st: &mut Stats) {
    let report = |st: &mut Stats, hist: &[MOp], class: String, what: String| {
        st.violation(Finding {
            class,
            what: format!("{what} [{} history {:?}]", cfg.name, hist),
            replay: json!({"kind": "model_history", "config": cfg.describe(), "history": format!("{hist:?}")}),
        });
    };
    let menu: Vec<MOp> = if hist.len() < depth { ops.to_vec() } else { vec![MOp::Generate, MOp::GenerateBigram] };
    let umenu = user_menu(cfg);
    let leaf = hist.len() >= depth;
    for op in menu {
        let mut child = match node.copy() {
            Ok(c) => c,
            Err(e) => {
                println!("MACHINERY: verif_twin failed: {e}");
                std::process::exit(2);
            }
        };
        st.states += 1;
        st.transitions += 1;
        hist.push(op);
        match child.step(op, hist.len() - 1, &umenu, st) {
            Err((class, what)) => {
                // K6: rucrf's merge() panics on a model whose bigram weight table is empty
                let k6 = class.starts_with("generation") && what.contains("rucrf") && what.contains("model.rs") && {
                    let raw_bytes = child.a.verif_raw_model_bytes();
                    bincode::decode_from_slice::<RawMirror, _>(&raw_bytes, bcfg()).map_or(false, |x| x.0.bwi.is_empty())
                };
                if k6 && k6_open {
                    st.known("K6", "a trained model with an empty bigram weight table cannot be written out (panic inside rucrf's merge())");
                    st.count("k6_explained");
                } else {
                    report(st, hist, class, what)
                }
            }
            Ok(()) => {
                st.outcome(&(ci, child.last_dict.as_ref().map(|o| (o.lex.clone(), o.matrix.clone(), o.user.clone())), child.last_bg.as_ref().map(|o| o.left.clone())));
                if !leaf {
                    c15_dfs(cfg, ci, &child, hist, ops, depth, k6_open, st);
                }
            }
        }
        hist.pop();
    }
}

pub fn run_c15(tier: Tier) -> i32 {
    let mut rep = Report::new("C15", tier);
    let kf = load_known_findings();
    let mut fam = family(tier);
    // models without user lexicons in the configuration (the history adds them)
    fam.retain(|c| c.users.is_empty());
    let stride = tier.pick(2, 1);
    let fam: Vec<TrainCfg> = fam.into_iter().enumerate().filter(|(i, _)| i % stride == 0).map(|x| x.1).collect();
    let depth = tier.pick(3, 4);
    let ops = [MOp::Generate, MOp::GenerateBigram, MOp::WriteRead, MOp::AddUser(0), MOp::AddUser(1), MOp::AddUser(2)];
    let max_iter = tier.pick(5, 20);
    let st = par_explore(fam.len(), |ci, st| {
        let cfg = &fam[ci];
        let Ok(mut m) = train(cfg, max_iter) else {
            st.count("training_failed (see C14)");
            return;
        };
        // binding of the copy hook to the code: the model and a copy of it taken at once are driven
        // through the same operations (generate, add a user lexicon, generate, copy again,
        // generate) and must produce the same files / the same failures at every step
        let mut c = match m.verif_twin() {
            Ok(c) => c,
            Err(e) => {
                println!("MACHINERY: verif_twin failed: {e}");
                std::process::exit(2);
            }
        };
        // K6 models cannot generate at all
        let base = outputs(&mut m);
        let mut bound = outputs(&mut c) == base;
        if let Err(e) = &base {
            if !bound {
                println!("MACHINERY: a verif_twin copy fails differently from its original [{}]", cfg.name);
                std::process::exit(2);
            }
            if e.contains("rucrf") && is_open(&kf, "C15", "K6") {
                st.known("K6", "a trained model with an empty bigram weight table cannot be written out (panic inside rucrf's merge())");
            }
            return;
        }
        st.count("models");
        {
            let umenu = user_menu(cfg);
            let ui = ci % umenu.len();
            let mut m2 = m.verif_twin().unwrap();
            let r1 = guard(|| c.read_user_lexicon(umenu[ui].as_bytes()));
            let r2 = guard(|| m2.read_user_lexicon(umenu[ui].as_bytes()));
            bound &= matches!(r1, Ok(Ok(()))) == matches!(r2, Ok(Ok(())));
            bound &= outputs(&mut c) == outputs(&mut m2);
            let mut c3 = c.verif_twin().unwrap();
            bound &= outputs(&mut c3) == outputs(&mut m2);
            if !bound {
                println!("MACHINERY: a verif_twin copy of a trained model does not behave like the model [{}]", cfg.name);
                std::process::exit(2);
            }
            st.count("copy_hook_bound_to_original");
        }
        let root = MState { a: m, t: None, users_before_split: false, users_added_to_twin: false, last_dict: None, last_bg: None };
        c15_dfs(cfg, ci, &root, &mut vec![], &ops, depth, is_open(&kf, "C15", "K6"), st);
        if ci % 13 == 0 {
            st.sample(json!({"config": cfg.name, "history_depth": depth, "operations": format!("{ops:?}")}));
        }
    });
    rep.rule = format!("state = (really trained model of a slice of the C14 family, history of <= {depth} ops over {{write_dictionary, write_bigram_details (separate operations, either order), write_model->read_model, add user lexicon U1, U2, U3}} followed by a final write_dictionary / write_bigram_details); the history tree is explored depth-first, each node reached by copying its parent's pair of models field by field (hook verif_twin, not the model codec; per model the copy is bound to the code by driving the original and its copy through the same operations and comparing every output); from the first round trip on the in-memory model and its reloaded twin run in lock-step and every generation compares lex/matrix/unk/user/bigram.left/bigram.right bytes and the multiset of bigram.cost lines; generating twice from the same model must give identical files; distinct = distinct (model, final files)");
    rep.bounds = json!({"history_depth": depth, "models": fam.len(), "max_iter": max_iter});
    rep.assumptions = vec!["user lexicons added before a round trip are session state that write_model does not persist: for such histories user.csv is not compared".into()];
    rep.finish(st, &["models", "copy_hook_bound_to_original", "roundtrips", "user_lexicons_added", "repeated_generations_compared", "repeated_bigram_generations_compared", "reloaded_vs_in_memory_generations_compared", "reloaded_vs_in_memory_bigram_generations_compared", "dictionary_and_bigram_id_spaces_compared"])
}
