//! C10: dictionary builders are total, and acceptance implies safe use (E4 + E1).
use serde_json::json;
use vibrato::{Dictionary, SystemDictionaryBuilder, Tokenizer};

use crate::common::*;
use crate::real::*;
use crate::refmodel::Opts;

#[derive(Clone, Copy, PartialEq, Eq, Debug, Hash)]
pub enum Kind {
    Lex,
    Matrix,
    CharDef,
    Unk,
    User,
    BigramRight,
    BigramLeft,
    BigramCost,
}

#[derive(Clone)]
pub struct Files {
    pub lex: Vec<u8>,
    pub matrix: Vec<u8>,
    pub chardef: Vec<u8>,
    pub unk: Vec<u8>,
    pub user: Option<Vec<u8>>,
    pub bigram: Option<(Vec<u8>, Vec<u8>, Vec<u8>)>,
    pub dual: bool,
    /// connection-id mapping (lmap, rmap) applied after the system dictionary is built and
    /// before the user lexicon is loaded
    pub mapping: Option<(Vec<u16>, Vec<u16>)>,
}

const LEX: &str = "a,1,1,10,fa\nab,2,1,15,fab\nb,1,2,12,\"x,y\",z\nあ,2,2,9,hira\n";
const MATRIX: &str = "3 3\n0 0 0\n0 1 5\n0 2 -3\n1 0 2\n1 1 -7\n1 2 4\n2 0 1\n2 1 6\n2 2 -2\n";
const CHARDEF: &str = "DEFAULT 0 1 0\nSPACE 0 1 0\nAL 1 1 2\nKJ 0 0 2\n0x0020 SPACE\n0x0061..0x007A AL\n0x3040..0x309F KJ AL\n";
const UNK: &str = "DEFAULT,1,1,100,ud\nSPACE,0,0,50,us\nAL,2,1,80,ual\nAL,1,2,85,ual2\nKJ,2,2,70,ukj\n";
const USER: &str = "ab,1,2,-5,user-ab\nc,2,1,3,user-c\n";
const BG_RIGHT3: &str = "1\tR0,x,*\n2\tR1,*,z\n";
const BG_LEFT3: &str = "1\tL0,y,*\n2\t*,y,w\n";
const BG_COST3: &str = "R0/L0\t5\nx/y\t-3\n/L0\t7\nR1/\t2\nz/w\t11\n";

fn bg9(side: char) -> String {
    let mut s = String::new();
    for id in 1..=2 {
        s.push_str(&format!("{id}\t"));
        let cells: Vec<String> = (0..9).map(|p| if (id + p) % 4 == 0 { "*".to_string() } else { format!("{side}{}", (id * p) % 3) }).collect();
        s.push_str(&cells.join(","));
        s.push('\n');
    }
    s
}

fn bg9_cost() -> String {
    "R0/L0\t5\nR1/L1\t-3\nR2/L2\t9\nR0/L2\t1\n/L0\t7\nR1/\t2\n".to_string()
}

pub fn base_files(bigram: Option<bool>) -> Files {
    Files {
        lex: LEX.into(),
        matrix: MATRIX.into(),
        chardef: CHARDEF.into(),
        unk: UNK.into(),
        user: None,
        bigram: bigram.map(|dual| {
            if dual {
                (bg9('R').into_bytes(), bg9('L').into_bytes(), bg9_cost().into_bytes())
            } else {
                (BG_RIGHT3.into(), BG_LEFT3.into(), BG_COST3.into())
            }
        }),
        dual: bigram.unwrap_or(false),
        mapping: None,
    }
}

impl Files {
    pub fn with(&self, kind: Kind, content: Vec<u8>) -> Files {
        let mut f = self.clone();
        match kind {
            Kind::Lex => f.lex = content,
            Kind::Matrix => f.matrix = content,
            Kind::CharDef => f.chardef = content,
            Kind::Unk => f.unk = content,
            Kind::User => f.user = Some(content),
            Kind::BigramRight => f.bigram.as_mut().unwrap().0 = content,
            Kind::BigramLeft => f.bigram.as_mut().unwrap().1 = content,
            Kind::BigramCost => f.bigram.as_mut().unwrap().2 = content,
        }
        f
    }

    pub fn get(&self, kind: Kind) -> Vec<u8> {
        match kind {
            Kind::Lex => self.lex.clone(),
            Kind::Matrix => self.matrix.clone(),
            Kind::CharDef => self.chardef.clone(),
            Kind::Unk => self.unk.clone(),
            Kind::User => self.user.clone().unwrap_or_default(),
            Kind::BigramRight => self.bigram.as_ref().unwrap().0.clone(),
            Kind::BigramLeft => self.bigram.as_ref().unwrap().1.clone(),
            Kind::BigramCost => self.bigram.as_ref().unwrap().2.clone(),
        }
    }

    pub fn to_json(&self) -> serde_json::Value {
        let s = |b: &Vec<u8>| String::from_utf8_lossy(b).to_string();
        let mut v = json!({"lex.csv": s(&self.lex), "char.def": s(&self.chardef), "unk.def": s(&self.unk)});
        match &self.bigram {
            None => v["matrix.def"] = s(&self.matrix).into(),
            Some((r, l, c)) => {
                v["bigram.right"] = s(r).into();
                v["bigram.left"] = s(l).into();
                v["bigram.cost"] = s(c).into();
                v["dual_connector"] = self.dual.into();
            }
        }
        if let Some(u) = &self.user {
            v["user.csv"] = s(u).into();
        }
        if let Some((l, r)) = &self.mapping {
            v["mapping_applied_before_user_csv"] = json!({"lmap": l, "rmap": r});
        }
        v
    }

    /// Ok(dictionary) / Err("Err ...") / Err("PANIC site: msg")
    pub fn build(&self) -> Result<Dictionary, String> {
        let r = guard(|| {
            let d = match &self.bigram {
                None => SystemDictionaryBuilder::from_readers(&*self.lex, &*self.matrix, &*self.chardef, &*self.unk),
                Some((r, l, c)) => SystemDictionaryBuilder::from_readers_with_bigram_info(&*self.lex, &**r, &**l, &**c, &*self.chardef, &*self.unk, self.dual),
            }?;
            let d = match &self.mapping {
                None => d,
                Some((l, r)) => d.map_connection_ids_from_iter(l.iter().cloned(), r.iter().cloned())?,
            };
            match &self.user {
                None => Ok(d),
                Some(u) => d.reset_user_lexicon_from_reader(Some(&**u)),
            }
        });
        match r {
            Err(p) => Err(format!("PANIC {p}")),
            Ok(Err(e)) => Err(format!("Err {e}")),
            Ok(Ok(d)) => Ok(d),
        }
    }
}

// ---------- independent, deliberately conservative char.def reader ----------

pub enum Judged {
    /// table: (category names, per-category (invoke, group, length), ranges)
    Valid(Vec<(String, bool, bool, u16)>, Vec<(u32, u32, Vec<usize>)>),
    /// the file contains something that cannot be represented and must be rejected
    Invalid(&'static str),
    /// outside the grammar this reader understands: no verdict
    Unjudged,
}

fn parse_hex(t: &str) -> Option<u64> {
    let h = t.strip_prefix("0x")?;
    if h.is_empty() || h.len() > 8 || !h.chars().all(|c| c.is_ascii_hexdigit()) {
        return None;
    }
    u64::from_str_radix(h, 16).ok()
}

pub fn judge_chardef(bytes: &[u8]) -> Judged {
    let Ok(text) = std::str::from_utf8(bytes) else { return Judged::Unjudged };
    if text.contains('\r') {
        return Judged::Unjudged;
    }
    let mut names: Vec<String> = vec!["DEFAULT".to_string()];
    let mut infos: Vec<Option<(bool, bool, u16)>> = vec![None];
    let mut raw_ranges: Vec<(u32, u32, Vec<String>)> = vec![];
    for line in text.split('\n') {
        let line = line.trim();
        if line.is_empty() || line.starts_with('#') {
            continue;
        }
        if !line.is_ascii() {
            return Judged::Unjudged;
        }
        let toks: Vec<&str> = line.split_whitespace().collect();
        if line.starts_with("0x") {
            let first = toks[0];
            let (lo, hi) = match first.split_once("..") {
                None => match parse_hex(first) {
                    Some(v) => (v, v),
                    None => return Judged::Unjudged,
                },
                Some((a, b)) => match (parse_hex(a), parse_hex(b)) {
                    (Some(a), Some(b)) => (a, b),
                    _ => return Judged::Unjudged,
                },
            };
            if lo > hi {
                return Judged::Invalid("range start after end");
            }
            if hi > 0xFFFF {
                return Judged::Invalid("range beyond U+FFFF");
            }
            let cats: Vec<String> = toks[1..].iter().take_while(|t| !t.starts_with('#')).map(|t| t.to_string()).collect();
            if cats.is_empty() {
                return Judged::Invalid("range line without a category");
            }
            if cats.iter().any(|c| c.starts_with("0x")) {
                return Judged::Unjudged;
            }
            raw_ranges.push((lo as u32, hi as u32, cats));
        } else {
            if toks.len() != 4 {
                return Judged::Unjudged;
            }
            let inv = match toks[1] {
                "0" => false,
                "1" => true,
                _ => return Judged::Unjudged,
            };
            let grp = match toks[2] {
                "0" => false,
                "1" => true,
                _ => return Judged::Unjudged,
            };
            if !toks[3].chars().all(|c| c.is_ascii_digit()) || toks[3].is_empty() || toks[3].len() > 4 {
                return Judged::Unjudged;
            }
            let len: u16 = toks[3].parse().unwrap();
            if len > 15 {
                return Judged::Invalid("length does not fit 4 bits");
            }
            let id = match names.iter().position(|n| n == toks[0]) {
                Some(i) => i,
                None => {
                    names.push(toks[0].to_string());
                    infos.push(None);
                    names.len() - 1
                }
            };
            infos[id] = Some((inv, grp, len));
        }
    }
    if infos[0].is_none() {
        return Judged::Invalid("DEFAULT undefined");
    }
    if names.len() > 18 {
        return Judged::Invalid("more than 18 categories do not fit the category bit set");
    }
    let mut ranges = vec![];
    for (lo, hi, cats) in raw_ranges {
        let mut ids = vec![];
        for c in cats {
            match names.iter().position(|n| *n == c) {
                Some(i) if infos[i].is_some() => ids.push(i),
                _ => return Judged::Invalid("range names an undefined category"),
            }
        }
        ranges.push((lo, hi, ids));
    }
    let cats = names.into_iter().zip(infos).map(|(n, i)| {
        let i = i.unwrap_or((false, false, 0));
        (n, i.0, i.1, i.2)
    });
    Judged::Valid(cats.collect(), ranges)
}

// ---------- case generators ----------

fn byte_strings(alphabet: &[u8], max_len: usize) -> Vec<Vec<u8>> {
    all_seqs(alphabet.len(), max_len).into_iter().map(|s| s.into_iter().map(|i| alphabet[i]).collect()).collect()
}

fn token_lines(tokens: &[&str], max_tokens: usize, sep: &str) -> Vec<String> {
    all_seqs(tokens.len(), max_tokens)
        .into_iter()
        .filter(|s| !s.is_empty())
        .map(|s| s.into_iter().map(|i| tokens[i]).collect::<Vec<_>>().join(sep))
        .collect()
}

const EDIT_BYTES: &[u8] = b"0 9a,\n\t\"-x#.";

fn single_edits(seed: &[u8]) -> Vec<Vec<u8>> {
    let mut out = vec![];
    for i in 0..seed.len() {
        // delete
        let mut v = seed.to_vec();
        v.remove(i);
        out.push(v);
        // truncate
        out.push(seed[..i].to_vec());
        for &b in EDIT_BYTES {
            if seed[i] != b {
                let mut v = seed.to_vec();
                v[i] = b;
                out.push(v);
            }
            let mut v = seed.to_vec();
            v.insert(i, b);
            out.push(v);
        }
    }
    for &b in EDIT_BYTES {
        let mut v = seed.to_vec();
        v.push(b);
        out.push(v);
    }
    // line operations
    let lines: Vec<&[u8]> = seed.split_inclusive(|&b| b == b'\n').collect();
    for i in 0..lines.len() {
        let mut v: Vec<&[u8]> = lines.clone();
        v.remove(i);
        out.push(v.concat());
        let mut v: Vec<&[u8]> = lines.clone();
        v.insert(i, lines[i]);
        out.push(v.concat());
        if i + 1 < lines.len() {
            let mut v: Vec<&[u8]> = lines.clone();
            v.swap(i, i + 1);
            out.push(v.concat());
        }
    }
    // CRLF, no final newline, blank lines
    out.push(String::from_utf8_lossy(seed).replace('\n', "\r\n").into_bytes());
    if seed.ends_with(b"\n") {
        out.push(seed[..seed.len() - 1].to_vec());
        let mut v = seed.to_vec();
        v.push(b'\n');
        out.push(v);
    }
    let mut v = b"\n".to_vec();
    v.extend_from_slice(seed);
    out.push(v);
    out.push(vec![]);
    out.push(vec![0xFF, 0xFE]);
    out
}

pub struct Sweep {
    pub name: String,
    pub kind: Kind,
    pub base: Files,
    pub cases: Vec<Vec<u8>>,
}

fn sweeps(tier: Tier) -> Vec<Sweep> {
    let mut out = vec![];
    let t = tier;
    let mx = base_files(None);
    let raw = base_files(Some(false));
    let dual = base_files(Some(true));
    // ---- (c) single edits of valid seeds ----
    let seeds: Vec<(Kind, Files, Vec<&str>)> = vec![
        (Kind::Lex, mx.clone(), vec![LEX, "\"a,b\",1,1,0,\"f,g\"\na,0,0,-1,\n", "a,1,1,10,fa"]),
        (Kind::Matrix, mx.clone(), vec![MATRIX, "2 3\n1 2 -1\n", "3 3"]),
        (
            Kind::CharDef,
            mx.clone(),
            vec![
                CHARDEF,
                "# comment\nDEFAULT\t0 1 0  # trailing\nSPACE 0 1 0\nAL 1 1 15\nKJ 0 0 2\n\n0x20 SPACE # sp\n0x61..0x7A AL KJ\n0x62 KJ\n0xFFFF AL\n0x0..0x1F DEFAULT\n",
                "DEFAULT 0 1 0\nSPACE 0 1 0\nAL 1 0 0\nKJ 1 1 1\n0x0061 AL KJ\n",
            ],
        ),
        (Kind::Unk, mx.clone(), vec![UNK, "DEFAULT,0,0,0,*\nSPACE,0,0,0,*\nAL,0,0,0,*\nKJ,0,0,0,\"a,b\"\n", "KJ,2,2,70,ukj\nDEFAULT,1,1,100,ud\nAL,2,1,80,ual\nSPACE,0,0,50,us"]),
        (Kind::User, mx.clone(), vec![USER, "ab,0,0,0,\n", "\"a b\",2,2,1,\"q\"\"r\"\n"]),
        (Kind::BigramRight, raw.clone(), vec![BG_RIGHT3, "1\tR0\n2\tR1,x\n", "1\t\"R0\",x,*\n2\t\n"]),
        (Kind::BigramLeft, raw.clone(), vec![BG_LEFT3, "1\tL0\n2\ty,y,y,y\n", "1\t*\n2\t*\n"]),
        (Kind::BigramCost, raw.clone(), vec![BG_COST3, "R0/L0\t5\n", "/\t3\nR0/L0\t-2147483648\n"]),
    ];
    for (kind, base, ss) in &seeds {
        let mut cases = vec![];
        for s in ss {
            cases.extend(single_edits(s.as_bytes()));
        }
        out.push(Sweep {
            name: format!("edits/{kind:?}"),
            kind: *kind,
            base: base.clone(),
            cases,
        });
    }
    // the dual connector with the same edit sets on its own seeds
    for (kind, seed) in [(Kind::BigramRight, bg9('R')), (Kind::BigramLeft, bg9('L')), (Kind::BigramCost, bg9_cost())] {
        out.push(Sweep {
            name: format!("edits-dual/{kind:?}"),
            kind,
            base: dual.clone(),
            cases: single_edits(seed.as_bytes()),
        });
    }
    // ---- (a) all byte strings over small alphabets ----
    let n = t.pick(6, 7);
    out.push(Sweep {
        name: "bytes/matrix".into(),
        kind: Kind::Matrix,
        base: mx.clone(),
        cases: byte_strings(b"012- \n", n),
    });
    let pre = |p: &str, v: Vec<Vec<u8>>| -> Vec<Vec<u8>> {
        v.into_iter()
            .map(|b| {
                let mut x = p.as_bytes().to_vec();
                x.extend(b);
                x
            })
            .collect()
    };
    out.push(Sweep {
        name: "bytes/chardef-after-header".into(),
        kind: Kind::CharDef,
        base: mx.clone(),
        cases: pre("DEFAULT 0 1 0\nSPACE 0 1 0\nAL 1 1 2\nKJ 0 0 2\nD 1 0 1\n", byte_strings(b"0x1. \nD#", t.pick(6, 7))),
    });
    out.push(Sweep {
        name: "bytes/lex".into(),
        kind: Kind::Lex,
        base: mx.clone(),
        cases: byte_strings(b"a,01-\"\n", t.pick(6, 7)),
    });
    out.push(Sweep {
        name: "bytes/lex-after-row".into(),
        kind: Kind::Lex,
        base: mx.clone(),
        cases: pre("b,1,1,1,f\na,0,0,0", byte_strings(b",a\"\n\r ", t.pick(5, 6))),
    });
    out.push(Sweep {
        name: "bytes/user-after-row".into(),
        kind: Kind::User,
        base: mx.clone(),
        cases: pre("b,1,1,1,f\na,0,0,0", byte_strings(b",a\"\n\r ", t.pick(4, 5))),
    });
    out.push(Sweep {
        name: "bytes/unk-after-row".into(),
        kind: Kind::Unk,
        base: mx.clone(),
        cases: pre(UNK, byte_strings(b"AL,0-\n\"", t.pick(6, 7))),
    });
    out.push(Sweep {
        name: "bytes/bigram-right".into(),
        kind: Kind::BigramRight,
        base: raw.clone(),
        cases: byte_strings(b"12\tx,*\n\"", t.pick(5, 6)),
    });
    out.push(Sweep {
        name: "bytes/bigram-left-dual".into(),
        kind: Kind::BigramLeft,
        base: dual.clone(),
        cases: byte_strings(b"12\tL,*\n", t.pick(5, 6)),
    });
    out.push(Sweep {
        name: "bytes/bigram-cost".into(),
        kind: Kind::BigramCost,
        base: raw.clone(),
        cases: byte_strings(b"xR/\t1-\n", t.pick(5, 6)),
    });
    // ---- (b) lines from token grammars after a valid header (and before a valid tail) ----
    let cd_tokens = ["DEFAULT", "A", "B", "0", "1", "2", "15", "16", "0x41", "0x41..0x42", "0x42..0x41", "0x10000", "0xFFFFFFFFFFFFFFFF", "#", "junk", "65536"];
    let mut cases = vec![];
    for l in token_lines(&cd_tokens, t.pick(4, 5), " ") {
        cases.push(format!("DEFAULT 0 1 0\nSPACE 0 1 0\nAL 1 1 2\nKJ 0 0 2\nA 1 0 1\n{l}\n").into_bytes());
        if tier == Tier::Thorough || l.len() % 3 == 0 {
            cases.push(format!("DEFAULT 0 1 0\nSPACE 0 1 0\nAL 1 1 2\nKJ 0 0 2\n{l}\nA 0 1 3\n0x43 A\n").into_bytes());
        }
        // a range line over an earlier, wider range line: the later line wins (also when it
        // names DEFAULT only)
        if l.starts_with("0x") {
            cases.push(format!("DEFAULT 0 1 0\nSPACE 0 1 0\nAL 1 1 2\nKJ 0 0 2\nA 1 0 1\nB 0 1 1\n0x40..0x44 A B\n{l}\n").into_bytes());
            // ... before a later, BROADER line that re-declares the same code points
            cases.push(format!("DEFAULT 0 1 0\nSPACE 0 1 0\nAL 1 1 2\nKJ 0 0 2\nA 1 0 1\nB 0 1 1\n{l}\n0x40..0x44 B\n").into_bytes());
            // ... after a line of the same category that it touches from below / overlaps
            cases.push(format!("DEFAULT 0 1 0\nSPACE 0 1 0\nAL 1 1 2\nKJ 0 0 2\nA 1 0 1\nB 0 1 1\n0x42..0x44 A\n{l}\n").into_bytes());
            cases.push(format!("DEFAULT 0 1 0\nSPACE 0 1 0\nAL 1 1 2\nKJ 0 0 2\nA 1 0 1\nB 0 1 1\n0x43..0x45 A\n{l}\n").into_bytes());
            // ... and after a HIGHER range line of the same category (descending line order)
            cases.push(format!("DEFAULT 0 1 0\nSPACE 0 1 0\nAL 1 1 2\nKJ 0 0 2\nA 1 0 1\nB 0 1 1\n0x50..0x52 A\n{l}\n0x60 A\n").into_bytes());
        }
    }
    out.push(Sweep {
        name: "lines/chardef".into(),
        kind: Kind::CharDef,
        base: mx.clone(),
        cases,
    });
    let m_tokens = ["0", "1", "2", "3", "-1", "65535", "65536", "32767", "-32769", "x", ""];
    let mut cases = vec![];
    for l in token_lines(&m_tokens, 3, " ") {
        cases.push(format!("3 3\n{l}\n").into_bytes());
        cases.push(format!("3 3\n0 0 1\n{l}").into_bytes());
    }
    for l in token_lines(&m_tokens, 3, " ") {
        // as header; keep allocations small: only one large dimension at a time
        if l.matches("6553").count() <= 1 {
            cases.push(format!("{l}\n0 0 1\n").into_bytes());
        }
    }
    out.push(Sweep {
        name: "lines/matrix".into(),
        kind: Kind::Matrix,
        base: mx.clone(),
        cases,
    });
    // CSV rows from field menus: lex, unk, user
    let surf = ["a", "", "\"a\"", "\"a,b\"", "a\"b", "あ"];
    let ids = ["0", "2", "3", "-1", "65536", "x", ""];
    let costs = ["0", "-32768", "32768", "x"];
    let feats = ["f", "", "\"q", "f,g", "*"];
    let terms = ["\n", "", "\r\n", "\n\n"];
    let mut rows = vec![];
    for s in surf {
        for l in ids {
            for r in ["1", "3", "x"] {
                for c in costs {
                    for f in feats {
                        for tm in terms {
                            rows.push(format!("{s},{l},{r},{c},{f}{tm}"));
                        }
                    }
                }
            }
        }
    }
    for s in surf {
        for tm in terms {
            rows.push(format!("{s},1,1,0{tm}")); // four fields only
            rows.push(format!("{s},1,1{tm}"));
            rows.push(format!("{s}{tm}"));
        }
    }
    out.push(Sweep {
        name: "rows/lex".into(),
        kind: Kind::Lex,
        base: mx.clone(),
        cases: rows.iter().flat_map(|r| [r.clone().into_bytes(), format!("b,1,1,1,f\n{r}").into_bytes(), format!("{r}b,1,1,1,f\n").into_bytes()]).collect(),
    });
    out.push(Sweep {
        name: "rows/user".into(),
        kind: Kind::User,
        base: mx.clone(),
        cases: rows.iter().flat_map(|r| [r.clone().into_bytes(), format!("b,1,1,1,f\n{r}").into_bytes()]).collect(),
    });
    let mut urows = vec![];
    for c in ["DEFAULT", "AL", "NOPE", "", "\"AL\""] {
        for l in ids {
            for cost in costs {
                for f in feats {
                    for tm in terms {
                        urows.push(format!("{UNK}{c},{l},1,{cost},{f}{tm}").into_bytes());
                    }
                }
            }
        }
    }
    out.push(Sweep {
        name: "rows/unk".into(),
        kind: Kind::Unk,
        base: mx.clone(),
        cases: urows,
    });
    // ---- (d) structured extremes ----
    let mut cases = vec![];
    for ncat in [17usize, 18, 19, 20, 33, 255, 256, 257] {
        // DEFAULT, SPACE, AL, KJ + extra categories; the LAST category is assigned to 'b'
        let mut s = String::from("DEFAULT 0 1 0\nSPACE 0 1 0\nAL 1 1 2\nKJ 0 0 2\n");
        for i in 4..ncat {
            s.push_str(&format!("C{i} 1 0 1\n"));
        }
        s.push_str("0x0020 SPACE\n0x0061 AL\n");
        if ncat > 4 {
            s.push_str(&format!("0x0062 C{}\n0x0063 C{} AL\n", ncat - 1, ncat - 1));
        }
        cases.push(s.into_bytes());
    }
    for len in [14u32, 15, 16, 17, 255, 256, 65535, 65536] {
        cases.push(format!("DEFAULT 0 1 0\nSPACE 0 1 0\nAL 1 1 {len}\nKJ 0 0 2\n0x0061..0x0062 AL\n").into_bytes());
    }
    cases.push(b"DEFAULT 0 1 0\nSPACE 0 1 0\nAL 1 1 2\nKJ 0 0 2\n0x20 SPACE NOPE\n".to_vec());
    cases.push(b"DEFAULT 0 1 0\nSPACE 0 1 0\nAL 1 1 2\nKJ 0 0 2\n0x20 #c\n".to_vec());
    cases.push(b"DEFAULT 0 1 0\nSPACE 0 1 0\nAL 1 1 2\nKJ 0 0 2\n0x20\n".to_vec());
    cases.push(b"SPACE 0 1 0\nAL 1 1 2\nKJ 0 0 2\n".to_vec());
    cases.push(b"".to_vec());
    out.push(Sweep {
        name: "extremes/chardef".into(),
        kind: Kind::CharDef,
        base: mx.clone(),
        cases,
    });
    out.push(Sweep {
        name: "extremes/matrix".into(),
        kind: Kind::Matrix,
        base: mx.clone(),
        cases: vec![b"".to_vec(), b"\n".to_vec(), b"3 3".to_vec(), b"65535 1\n".to_vec(), b"1 65535\n".to_vec(), b"3 65535\n2 65534 7\n".to_vec(), b"0 0\n".to_vec(), b"3 3\n\n0 0 1\n\n".to_vec()],
    });
    out.push(Sweep {
        name: "extremes/lex-empty".into(),
        kind: Kind::Lex,
        base: mx.clone(),
        cases: vec![b"".to_vec(), b"\n".to_vec(), b",1,1,1,f\n".to_vec()],
    });
    for (nm, base) in [("raw", &raw), ("dual", &dual)] {
        // empty bigram files in every combination
        let b = base.bigram.clone().unwrap();
        let mut cases = vec![];
        for mask in 0..8u8 {
            let mut f = (*base).clone();
            f.bigram = Some((
                if mask & 1 != 0 { vec![] } else { b.0.clone() },
                if mask & 2 != 0 { vec![] } else { b.1.clone() },
                if mask & 4 != 0 { vec![] } else { b.2.clone() },
            ));
            // encode the whole triple into one case by a private convention: handled below
            cases.push(format!("{mask}").into_bytes());
            let _ = f;
        }
        out.push(Sweep {
            name: format!("extremes/bigram-empty-{nm}"),
            kind: Kind::BigramCost,
            base: (*base).clone(),
            cases,
        });
    }
    // rows of different widths on the two sides (0 = empty row)
    for (nm, base) in [("raw", &raw), ("dual", &dual)] {
        let mut cases = vec![];
        for wr in [0usize, 1, 2, 7, 8, 9, 16, 17, 25] {
            for wl in [0usize, 1, 2, 7, 8, 9, 16, 17, 25] {
                cases.push(format!("{wr},{wl}").into_bytes());
            }
        }
        out.push(Sweep {
            name: format!("extremes/bigram-widths-{nm}"),
            kind: Kind::BigramCost,
            base: (*base).clone(),
            cases,
        });
    }
    // user CSV loaded after a connection-id mapping, on square and non-square connectors:
    // every (left, right) id pair up to two beyond the larger dimension
    {
        let mx_of = |nr: usize, nl: usize| -> Vec<u8> {
            let mut s = format!("{nr} {nl}\n");
            for r in 0..nr {
                for l in 0..nl {
                    s.push_str(&format!("{r} {l} {}\n", (r as i32 * 7 + l as i32 * 3) % 11 - 5));
                }
            }
            s.into_bytes()
        };
        let side = |n: usize, c: char, w: usize| -> Vec<u8> {
            let mut s = String::new();
            for id in 1..n {
                let cells: Vec<String> = (0..w).map(|p| if (id + p) % 4 == 0 { "*".to_string() } else { format!("{c}{}", (id * (p + 1)) % 3) }).collect();
                s.push_str(&format!("{id}\t{}\n", cells.join(",")));
            }
            s.into_bytes()
        };
        let rot = |n: usize| -> Vec<u16> { (1..n).map(|i| if i + 1 < n { (i + 1) as u16 } else { 1 }).collect() };
        let idm = |n: usize| -> Vec<u16> { (1..n).map(|i| i as u16).collect() };
        let mut bases: Vec<(String, Files, usize, usize)> = vec![];
        for (nr, nl) in [(3usize, 3usize), (3, 5), (5, 3), (4, 6)] {
            let mut f = mx.clone();
            f.matrix = mx_of(nr, nl);
            bases.push((format!("matrix{nr}x{nl}"), f, nr, nl));
            for (nm, is_dual, w) in [("raw", false, 3usize), ("dual", true, 9)] {
                let mut f = if is_dual { dual.clone() } else { raw.clone() };
                f.bigram = Some((side(nr, 'R', w), side(nl, 'L', w), b"R0/L0\t5\nR1/L1\t-3\nR2/L2\t9\n/L0\t7\nR1/\t2\n".to_vec()));
                bases.push((format!("{nm}{nr}x{nl}"), f, nr, nl));
            }
        }
        for (bn, f, nr, nl) in bases {
            for (mn, mapping) in [("unmapped", None), ("rotated", Some((rot(nl), rot(nr)))), ("left-rotated", Some((rot(nl), idm(nr))))] {
                let mut f = f.clone();
                f.mapping = mapping;
                let m = nr.max(nl) + 2;
                let mut cases = vec![];
                for l in 0..m {
                    for r in 0..m {
                        cases.push(format!("ab,{l},{r},-5,user-ab\nc,1,1,3,user-c\n").into_bytes());
                    }
                }
                out.push(Sweep {
                    name: format!("user-after-mapping/{bn}/{mn}"),
                    kind: Kind::User,
                    base: f,
                    cases,
                });
            }
        }
    }
    // char.def with one undecodable (non-UTF-8) line inserted at every line position
    {
        let lines: Vec<&[u8]> = CHARDEF.as_bytes().split_inclusive(|&b| b == b'\n').collect();
        let mut cases = vec![];
        for pos in 0..=lines.len() {
            for bad in [&b"# caf\xE9\n"[..], &b"\xFF\n"[..], &b"0x0041 AL \xC3\n"[..], &b"# \xED\xA0\x80 lone surrogate\n"[..]] {
                let mut v: Vec<&[u8]> = lines.clone();
                v.insert(pos, bad);
                cases.push(v.concat());
            }
        }
        out.push(Sweep {
            name: "undecodable/chardef".into(),
            kind: Kind::CharDef,
            base: mx.clone(),
            cases,
        });
    }
    // an empty unk.def / a category without an unk entry (K1)
    out.push(Sweep {
        name: "extremes/unk".into(),
        kind: Kind::Unk,
        base: mx.clone(),
        cases: vec![b"".to_vec(), b"DEFAULT,1,1,100,ud\n".to_vec(), b"DEFAULT,1,1,100,ud\nSPACE,0,0,50,us\nKJ,2,2,70,ukj\n".to_vec()],
    });
    out
}

/// Reference-free structural oracle for the tokens of an accepted dictionary.
fn basic_oracle(s: &str, toks: &[Tok], ignore_space: bool) -> Result<(), String> {
    let chars: Vec<(usize, char)> = s.char_indices().collect();
    let n = chars.len();
    let byte_of = |ci: usize| if ci < n { chars[ci].0 } else { s.len() };
    let mut prev = 0usize;
    for t in toks {
        if t.cs >= t.ce || t.ce > n || t.cs < prev {
            return Err(format!("bad token range {}..{}", t.cs, t.ce));
        }
        if !ignore_space && t.cs != prev {
            return Err(format!("gap {prev}..{}", t.cs));
        }
        if t.bs != byte_of(t.cs) || t.be != byte_of(t.ce) || t.surface != s[t.bs..t.be] {
            return Err("byte range / surface mismatch".into());
        }
        prev = t.ce;
    }
    if !ignore_space && prev != n {
        return Err(format!("tail {prev}..{n} uncovered"));
    }
    Ok(())
}

const SAFE_ALPHABET: [char; 5] = ['a', 'b', ' ', 'あ', 'c'];

fn check_case(sw: &Sweep, case: &[u8], kf: &[KnownFinding], sentences: &[String], st: &mut Stats) {
    st.states += 1;
    st.transitions += 1;
    let files = if sw.name.starts_with("extremes/bigram-empty") {
        let mask: u8 = String::from_utf8_lossy(case).parse().unwrap();
        let b = sw.base.bigram.clone().unwrap();
        let mut f = sw.base.clone();
        f.bigram = Some((if mask & 1 != 0 { vec![] } else { b.0 }, if mask & 2 != 0 { vec![] } else { b.1 }, if mask & 4 != 0 { vec![] } else { b.2 }));
        f
    } else if sw.name.starts_with("extremes/bigram-widths") {
        let txt = String::from_utf8_lossy(case).to_string();
        let (wr, wl) = txt.split_once(',').unwrap();
        let (wr, wl): (usize, usize) = (wr.parse().unwrap(), wl.parse().unwrap());
        let side = |w: usize, c: char| -> Vec<u8> {
            let mut s = String::new();
            for id in 1..=2 {
                s.push_str(&format!("{id}\t"));
                let cells: Vec<String> = (0..w).map(|p| if (id + p) % 5 == 0 { "*".to_string() } else { format!("{c}{}", (id * p) % 3) }).collect();
                s.push_str(&cells.join(","));
                s.push('\n');
            }
            s.into_bytes()
        };
        let mut f = sw.base.clone();
        f.bigram = Some((side(wr, 'R'), side(wl, 'L'), b"R0/L0\t5\nR1/L1\t-3\nR2/L2\t9\n/L0\t7\n/L2\t70\nR1/\t2\nR2/\t20\n".to_vec()));
        f
    } else {
        sw.base.with(sw.kind, case.to_vec())
    };
    let replay = |extra: serde_json::Value| json!({"kind": "build", "sweep": sw.name, "edited_file": format!("{:?}", sw.kind), "files": files.to_json(), "details": extra});
    let built = files.build();
    let class = match &built {
        Ok(_) => "Ok".to_string(),
        Err(e) if e.starts_with("PANIC ") => format!("Panic@{}", panic_site(&e[6..])),
        Err(_) => "Err".to_string(),
    };
    st.outcome(&(&sw.name, &class, case.len().min(12)));
    st.count(&format!("outcome_{}", if class.starts_with("Panic") { "Panic" } else { &class }));
    if class.starts_with("Panic") {
        st.violation(Finding {
            class: format!("builder-{class}"),
            what: format!("builder panicked on {:?} content {:?}: {}", sw.kind, String::from_utf8_lossy(case), built.as_ref().err().unwrap()),
            replay: replay(json!({})),
        });
        return;
    }
    // a char.def with undecodable lines that is accepted all the same must at least honour its
    // decodable lines: it is judged with the undecodable lines removed
    let judged = if sw.kind == Kind::CharDef {
        if std::str::from_utf8(case).is_ok() {
            Some(judge_chardef(case))
        } else {
            let kept: Vec<&[u8]> = case.split_inclusive(|&b| b == b'\n').filter(|l| std::str::from_utf8(l).is_ok()).collect();
            st.count("chardef_cases_with_undecodable_lines");
            Some(judge_chardef(&kept.concat()))
        }
    } else {
        None
    };
    let Ok(d) = built else {
        return;
    };
    st.count(&format!("accepted_{:?}", sw.kind));
    if sw.name.starts_with("user-after-mapping/") {
        // connection ids within the connector: an accepted user row's ids are below the connector's dimensions
        // the dimensions the FILES define (not what the built connector claims)
        let (nr, nl) = match &files.bigram {
            Some((r, l, _)) => (String::from_utf8_lossy(r).lines().count() + 1, String::from_utf8_lossy(l).lines().count() + 1),
            None => {
                let h: Vec<usize> = String::from_utf8_lossy(&files.matrix).lines().next().unwrap_or("").split(' ').filter_map(|x| x.parse().ok()).collect();
                (h[0], h[1])
            }
        };
        if d.verif_conn_dims() != (nr, nl) {
            st.violation(Finding {
                class: "connector-dimensions-differ-from-the-files".into(),
                what: format!("the connector reports {:?} (right, left) ids, the definition files define {:?} [{}]", d.verif_conn_dims(), (nr, nl), sw.name),
                replay: replay(json!({})),
            });
            return;
        }
        let txt = String::from_utf8_lossy(case).to_string();
        let cells: Vec<&str> = txt.lines().next().unwrap().split(',').collect();
        let (l, r): (usize, usize) = (cells[1].parse().unwrap(), cells[2].parse().unwrap());
        st.count(if sw.base.mapping.is_some() { "user_rows_accepted_after_a_mapping" } else { "user_rows_accepted_without_mapping" });
        if l >= nl || r >= nr {
            st.violation(Finding {
                class: "user-ids-outside-connector-accepted".into(),
                what: format!("user row with left id {l}, right id {r} accepted on a connector with {nl} left and {nr} right ids [{}]", sw.name),
                replay: replay(json!({"left_id": l, "right_id": r, "num_left": nl, "num_right": nr})),
            });
            return;
        }
    }
    // never silently mis-assign character categories
    if let Some(j) = judged {
        match j {
            Judged::Unjudged => st.count("chardef_accepted_outside_reference_grammar"),
            Judged::Invalid(why) => {
                st.violation(Finding {
                    class: "chardef-unrepresentable-accepted".into(),
                    what: format!("char.def accepted although {why}: {:?}", String::from_utf8_lossy(case)),
                    replay: replay(json!({"reason": why})),
                });
                return;
            }
            Judged::Valid(cats, ranges) => {
                st.count("chardef_tables_compared");
                let names = d.verif_categories();
                let exp_names: Vec<String> = cats.iter().map(|c| c.0.clone()).collect();
                if names != exp_names {
                    st.violation(Finding {
                        class: "chardef-category-table-differs".into(),
                        what: format!("category table {:?}, expected {:?}", names, exp_names),
                        replay: replay(json!({})),
                    });
                    return;
                }
                let mut probes: Vec<u32> = vec![0, 0x20, 0x41, 0x42, 0x43, 0x61, 0x62, 0x63, 0x3042, 0xFFFF];
                for (lo, hi, _) in &ranges {
                    probes.extend([*lo, *hi, lo.saturating_sub(1), (*hi + 1).min(0xFFFF)]);
                }
                // characters above U+FFFF that share the low 16 bits of a range bound are never
                // covered by a range line (unless U+0000 is: that is the recorded finding K2)
                if !ranges.iter().any(|(lo, _, _)| *lo == 0) {
                    let aliases: Vec<u32> = ranges.iter().flat_map(|(lo, hi, _)| [*lo + 0x1_0000, *hi + 0x2_0000]).filter(|v| *v <= 0x10FFFF).collect();
                    probes.extend(aliases);
                }
                probes.sort();
                probes.dedup();
                for cp in probes {
                    let Some(c) = char::from_u32(cp) else { continue };
                    let mut set = 1u32;
                    let mut prim = 0usize;
                    for (lo, hi, ids) in &ranges {
                        if *lo <= cp && cp <= *hi {
                            set = ids.iter().fold(0, |a, &k| a | (1 << k));
                            prim = ids[0];
                        }
                    }
                    let exp = (set, prim as u32, cats[prim].1, cats[prim].2, cats[prim].3);
                    let got = d.verif_char_info(c);
                    if got != exp {
                        st.violation(Finding {
                            class: "chardef-misassigned".into(),
                            what: format!("U+{cp:04X}: accepted char.def yields {:?} but the file says {:?}", got, exp),
                            replay: replay(json!({"codepoint": cp})),
                        });
                        return;
                    }
                }
            }
        }
    }
    // acceptance implies safe use
    let t0 = Tokenizer::new(d);
    let mut t = t0;
    for ig in [false, true] {
        t = match guard(move || t.ignore_space(ig)) {
            Ok(Ok(t)) => t,
            Ok(Err(_)) => return, // SPACE undefined: nothing more to do with this dictionary
            Err(p) => {
                st.violation(Finding {
                    class: format!("ignore_space-Panic@{}", panic_site(&p)),
                    what: format!("ignore_space panicked: {p}"),
                    replay: replay(json!({})),
                });
                return;
            }
        };
        for s in sentences {
            st.count("sentences_on_accepted_dictionaries");
            match run_fresh(&t, s, false) {
                Ok(r) => {
                    if let Err(m) = basic_oracle(s, &r.tokens, ig) {
                        st.violation(Finding {
                            class: "accepted-dictionary-bad-tokens".into(),
                            what: format!("accepted dictionary tokenizes {:?} badly: {m}", s),
                            replay: replay(json!({"sentence": s, "ignore_space": ig})),
                        });
                        return;
                    }
                }
                Err(p) => {
                    // K1: some character's primary category has no unk entry
                    let dict = t.dictionary();
                    let k1 = s.chars().any(|c| dict.verif_unk_count(dict.verif_char_info(c).1) == 0);
                    // K4: a bigram.cost entry of huge magnitude makes the accumulated path cost leave i32
                    let huge_cost = files.bigram.as_ref().map_or(false, |b| {
                        String::from_utf8_lossy(&b.2).lines().any(|l| l.rsplit('\t').next().and_then(|c| c.parse::<i64>().ok()).map_or(false, |c| c.abs() > (1 << 24)))
                    });
                    if huge_cost && p.contains("lattice.rs") && p.contains("overflow") && is_open(kf, "C10", "K4") {
                        st.known("K4", "bigram.cost entry of magnitude above 2^24 accepted; accumulated path cost overflows i32 (panic under overflow checks)");
                        st.count("k4_explained");
                        return;
                    }
                    if k1 && p.contains("lattice.rs") && !p.contains("overflow") && is_open(kf, "C10", "K1") {
                        st.known("K1", "accepted dictionary whose character category has no unk.def entry: tokenize panics when the end of the sentence becomes unreachable");
                        st.count("k1_explained");
                        return;
                    }
                    st.violation(Finding {
                        class: format!("accepted-dictionary-Panic@{}", panic_site(&p)),
                        what: format!("a dictionary the builder accepted panics on {:?}: {p}", s),
                        replay: replay(json!({"sentence": s, "ignore_space": ig})),
                    });
                    return;
                }
            }
        }
    }
    let _ = Opts { ignore_space: false, mgl: 0 };
}

pub fn run(tier: Tier) -> i32 {
    let mut rep = Report::new("C10", tier);
    let kf = load_known_findings();
    let sws = sweeps(tier);
    // sanity: every base builds
    for f in [base_files(None), base_files(Some(false)), base_files(Some(true))] {
        if let Err(e) = f.build() {
            if !(f.dual && e.starts_with("PANIC")) {
                println!("MACHINERY: C10 seed files do not build: {e}");
                return 2;
            }
        }
    }
    const CHUNK: usize = 512;
    let mut tasks = vec![];
    for (si, sw) in sws.iter().enumerate() {
        let mut s = 0;
        while s < sw.cases.len() {
            tasks.push((si, s));
            s += CHUNK;
        }
    }
    let sentences = all_strings(&SAFE_ALPHABET, tier.pick(3, 4));
    let mut st = par_explore(tasks.len(), |ti, st| {
        let (si, start) = tasks[ti];
        let sw = &sws[si];
        for case in &sw.cases[start..(start + CHUNK).min(sw.cases.len())] {
            check_case(sw, case, &kf, &sentences, st);
        }
        if start == 0 {
            st.sample(json!({"sweep": sw.name, "cases": sw.cases.len(), "example": String::from_utf8_lossy(&sw.cases[sw.cases.len() / 2])}));
        }
    });
    for sw in &sws {
        st.add(&format!("cases_{}", sw.name.split('/').next().unwrap()), sw.cases.len() as u64);
    }
    st.samples.truncate(6);
    rep.rule = "state = one definition file replaced by a generated content while the other files stay valid: all byte strings up to 6/7 bytes over per-format alphabets (matrix.def, char.def after a valid header, lex.csv, unk.def, user CSV, bigram.right/left/cost), all lines of <= 4/5 tokens from per-format token grammars, all CSV rows from field menus, every single-byte edit / truncation / line deletion, duplication and swap of 3 valid seed files per format (raw and dual connector), structured extremes, and user rows with every (left, right) id pair loaded after a connection-id mapping on square and non-square matrix/raw/dual connectors; oracle: the builder returns Ok or Err; an accepted char.def inside the reference grammar yields exactly the table the file describes (a char.def with undecodable lines, if accepted at all, the table of its decodable lines); every accepted dictionary tokenizes all sentences <= 3/4 chars under both ignore_space settings with well-formed tokens; distinct = distinct (sweep, outcome, content length) classes".into();
    rep.bounds = json!({"sweeps": sws.iter().map(|s| json!({"name": s.name, "cases": s.cases.len()})).collect::<Vec<_>>()});
    rep.assumptions = vec!["matrix headers use a large value in one dimension at a time (a 65535x65535 matrix would test the allocator)".into(), "mapping iterators are swept in C06".into()];
    rep.finish(st, &["outcome_Ok", "outcome_Err", "accepted_CharDef", "accepted_Matrix", "accepted_Lex", "accepted_Unk", "accepted_User", "accepted_BigramCost", "user_rows_accepted_after_a_mapping", "chardef_tables_compared", "chardef_cases_with_undecodable_lines", "sentences_on_accepted_dictionaries"])
}
