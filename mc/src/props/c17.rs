//! C17: rewrite rules — the first registered matching rule applies.
use serde_json::json;
use vibrato::trainer::verif::{rewrite, rewrite_def, Kind};

use crate::common::*;

const ATOMS: [&str; 4] = ["*", "a", "b", "(a|b)"];

fn patterns(max_cols: usize) -> Vec<Vec<&'static str>> {
    all_seqs(ATOMS.len(), max_cols).into_iter().filter(|s| !s.is_empty()).map(|s| s.into_iter().map(|i| ATOMS[i]).collect()).collect()
}

/// A pattern cell: `*` matches anything; `(x|y|...)` matches exactly the listed alternatives
/// (each a literal text, so `(*)` matches only the text `*`); anything else is a literal.
fn atom_matches(atom: &str, f: &str) -> bool {
    if atom == "*" {
        true
    } else if atom.len() >= 2 && atom.starts_with('(') && atom.ends_with(')') {
        atom[1..atom.len() - 1].split('|').any(|x| x == f)
    } else {
        atom == f
    }
}

/// Reference: earliest rule whose pattern matches position-wise as a prefix.
fn reference(rules: &[(Vec<String>, Vec<String>)], features: &[String]) -> Option<Vec<String>> {
    for (pat, out) in rules {
        if pat.len() > features.len() {
            continue;
        }
        if pat.iter().zip(features).all(|(p, f)| atom_matches(p, f)) {
            return Some(
                out.iter()
                    .map(|o| {
                        if let Some(n) = o.strip_prefix('$').and_then(|n| n.parse::<usize>().ok()) {
                            features.get(n - 1).cloned().unwrap_or_else(|| "*".to_string())
                        } else {
                            o.clone()
                        }
                    })
                    .collect(),
            );
        }
    }
    None
}

fn rule(i: usize, pat: &[&str]) -> (Vec<String>, Vec<String>) {
    (pat.iter().map(|s| s.to_string()).collect(), vec![format!("R{i}"), "$1".into(), "$2".into(), "$3".into()])
}

pub fn run(tier: Tier) -> i32 {
    let mut rep = Report::new("C17", tier);
    let feats: Vec<Vec<String>> = all_seqs(3, 3).into_iter().map(|s| s.into_iter().map(|i| ["a", "b", "c"][i].to_string()).collect()).collect();
    let pats2 = patterns(2);
    let pats3 = patterns(3);
    // configurations: (pattern menu, max rules)
    // 1-3 columns over the three atoms {*, a, b}
    let pats3small: Vec<Vec<&str>> = pats3.iter().filter(|p| p.iter().all(|a| *a != "(a|b)")).cloned().collect();
    let plans: Vec<(&Vec<Vec<&str>>, usize)> = match tier {
        Tier::Quick => vec![(&pats2, 3), (&pats3small, 3)],
        Tier::Thorough => vec![(&pats2, 4), (&pats3, 3)],
    };
    let mut st = Stats::default();
    for (pats, max_rules) in plans {
        let np = pats.len();
        // tasks keyed by the first rule's pattern (and the empty list once)
        let res = par_explore(np + 1, |ti, st| {
            let lists: Vec<Vec<usize>> = if ti == np {
                vec![vec![]]
            } else {
                all_seqs(np, max_rules - 1).into_iter().map(|mut s| {
                    s.insert(0, ti);
                    s
                }).collect()
            };
            for l in lists {
                let rules: Vec<(Vec<String>, Vec<String>)> = l.iter().enumerate().map(|(i, &pi)| rule(i, &pats[pi])).collect();
                let shares_prefix = l.len() >= 3 && {
                    // a later rule shares its first column with a non-adjacent earlier rule
                    (2..l.len()).any(|j| (0..j - 1).any(|i| pats[l[i]][0] == pats[l[j]][0] && pats[l[j - 1]][0] != pats[l[j]][0]))
                };
                for f in &feats {
                    st.states += 1;
                    st.transitions += 1;
                    if shares_prefix {
                        st.count("cases_where_a_later_rule_shares_a_prefix_with_a_non_adjacent_earlier_rule");
                    }
                    let want = reference(&rules, f);
                    let got = guard(|| rewrite(&rules, f));
                    let case = || json!({"kind": "rewrite", "rules": rules.iter().map(|(p, o)| format!("{} {}", p.join(","), o.join(","))).collect::<Vec<_>>(), "features": f});
                    match got {
                        Err(p) => st.violation(Finding {
                            class: format!("rewrite-Panic@{}", panic_site(&p)),
                            what: format!("rewrite panicked: {p}"),
                            replay: case(),
                        }),
                        Ok(g) => {
                            st.outcome(&g);
                            if want.is_some() {
                                st.count("cases_with_a_matching_rule");
                            } else {
                                st.count("cases_without_match");
                            }
                            if g != want {
                                let class = match (&g, &want) {
                                    (Some(a), Some(b)) if a[0] != b[0] => "later-rule-applied-before-earlier-match",
                                    (Some(_), Some(_)) => "rewrite-output-differs",
                                    (None, Some(_)) => "matching-rule-not-applied",
                                    _ => "rule-applied-without-match",
                                };
                                st.violation(Finding {
                                    class: class.into(),
                                    what: format!(
                                        "rules {:?} on features {:?}: got {:?}, the first matching rule gives {:?}",
                                        rules.iter().map(|(p, _)| p.join(",")).collect::<Vec<_>>(),
                                        f,
                                        g,
                                        want
                                    ),
                                    replay: case(),
                                });
                            }
                        }
                    }
                }
            }
            if ti % 7 == 3 {
                st.sample(json!({"first_rule_pattern": pats.get(ti).map(|p| p.join(",")), "max_rules": max_rules, "feature_lists": feats.len()}));
            }
        });
        st.merge(res);
    }
    // through rewrite.def text: <= 2 rules assigned to the three sections in all ways
    let kinds = [Kind::Unigram, Kind::Left, Kind::Right];
    let headers = ["[unigram rewrite]", "[left rewrite]", "[right rewrite]"];
    for (i, p1) in pats2.iter().enumerate() {
        for (j, p2) in pats2.iter().enumerate() {
            if (i * 7 + j) % tier.pick(5, 1) != 0 {
                continue;
            }
            for s1 in 0..3 {
                for s2 in 0..3 {
                    // render: rule 1 in section s1, rule 2 in section s2 (file order: rule 1 first)
                    let r1 = rule(0, p1);
                    let r2 = rule(1, p2);
                    let mut text = String::from("# generated\n");
                    text.push_str(&format!("{}\n{}\t{}\n", headers[s1], r1.0.join(","), r1.1.join(",")));
                    if s2 != s1 {
                        text.push_str(&format!("\n{}\n", headers[s2]));
                    }
                    text.push_str(&format!("{}   {}\n", r2.0.join(","), r2.1.join(",")));
                    for (k, kind) in kinds.iter().enumerate() {
                        let mut rules = vec![];
                        if s1 == k {
                            rules.push(r1.clone());
                        }
                        if s2 == k {
                            rules.push(r2.clone());
                        }
                        for f in feats.iter().step_by(3) {
                            st.states += 1;
                            st.transitions += 1;
                            st.count("rewrite_def_text_cases");
                            let want = reference(&rules, f);
                            match guard(|| rewrite_def(&text, *kind, f)) {
                                Ok(Ok(g)) if g == want => {}
                                other => st.violation(Finding {
                                    class: "rewrite-def-section-semantics".into(),
                                    what: format!("rewrite.def {:?} section {k} on {:?}: got {:?}, expected {:?}", text, f, other.map(|r| r.map_err(|e| e.to_string())), want),
                                    replay: json!({"kind": "rewrite_def", "text": text, "section": k, "features": f}),
                                }),
                            }
                        }
                    }
                }
            }
        }
    }
    // references $1 .. $25 (also with a leading zero) on feature lists of 0, 9, 10, 11 and 21 columns
    for ncols in [0usize, 9, 10, 11, 21] {
        let feats21: Vec<String> = (1..=ncols).map(|i| format!("f{i}")).collect();
        for n in 1..=25usize {
            for spelled in [format!("${n}"), format!("$0{n}")] {
                st.states += 1;
                st.transitions += 1;
                st.count("two_digit_reference_cases");
                let rules = vec![(vec!["*".to_string()], vec![spelled.clone(), "k".to_string(), format!("${}", (n % 25) + 1)]), (vec![], vec!["EMPTY".to_string(), spelled.clone()])];
                let rules: Vec<(Vec<String>, Vec<String>)> = if ncols == 0 { vec![rules[1].clone()] } else { vec![rules[0].clone()] };
                let want = reference(&rules, &feats21);
                match guard(|| rewrite(&rules, &feats21)) {
                    Ok(g) if g == want => {}
                    other => st.violation(Finding {
                        class: "reference-index-semantics".into(),
                        what: format!("rule output {:?} on {ncols} features: got {:?}, expected {:?}", rules[0].1, other, want),
                        replay: json!({"kind": "rewrite", "rules": [format!("{} {}", rules[0].0.join(","), rules[0].1.join(","))], "features": feats21}),
                    }),
                }
            }
        }
    }
    // group corners: cells that look like the wildcard or like a literal but are groups
    {
        let cells = ["*", "(*)", "(a)", "(*|a)", "((a))", "()", "(a|)", "a", "(a|b)", "(|)"];
        // '|' separates alternatives in a pattern but is an ordinary character in a feature value
        let vals = ["a", "*", "(a)", "", "b", "a|b", "|"];
        let mut pats: Vec<Vec<&str>> = vec![];
        for c in cells {
            pats.push(vec![c]);
        }
        for c in cells {
            for d in cells {
                pats.push(vec![c, d]);
            }
        }
        let mut flists: Vec<Vec<String>> = vec![];
        for v in vals {
            flists.push(vec![v.to_string()]);
            for w in vals {
                flists.push(vec![v.to_string(), w.to_string()]);
            }
        }
        let np = pats.len();
        let res = par_explore(np, |ti, st| {
            for second in 0..=np {
                let mut rules = vec![rule(0, &pats[ti])];
                if second < np {
                    rules.push(rule(1, &pats[second]));
                }
                for f in &flists {
                    st.states += 1;
                    st.transitions += 1;
                    st.count("group_corner_cases");
                    let want = reference(&rules, f);
                    match guard(|| rewrite(&rules, f)) {
                        Ok(g) if g == want => {}
                        other => st.violation(Finding {
                            class: "group-cell-semantics".into(),
                            what: format!("rules {:?} on features {:?}: got {:?}, expected {:?}", rules.iter().map(|(p, _)| p.join(",")).collect::<Vec<_>>(), f, other, want),
                            replay: json!({"kind": "rewrite", "rules": rules.iter().map(|(p, o)| format!("{} {}", p.join(","), o.join(","))).collect::<Vec<_>>(), "features": f}),
                        }),
                    }
                }
            }
        });
        st.merge(res);
    }
    // every output list of <= 3/4 items over {$1..$6, k} (runs of consecutive references, repeated
    // and descending references, references past the end) on feature lists of 0-4 columns
    {
        let items = ["$1", "$2", "$3", "$4", "$5", "$6", "k"];
        let max_out = tier.pick(3, 4);
        for olen in 1..=max_out {
            for code in 0..items.len().pow(olen as u32) {
                let out: Vec<String> = (0..olen).map(|p| items[(code / items.len().pow(p as u32)) % items.len()].to_string()).collect();
                for ncols in 0..=4usize {
                    let feats: Vec<String> = (1..=ncols).map(|i| format!("f{i}")).collect();
                    let pat: Vec<String> = if ncols == 0 { vec![] } else { vec!["*".to_string()] };
                    let rules = vec![(pat, out.clone())];
                    st.states += 1;
                    st.transitions += 1;
                    st.count("output_list_cases");
                    let want = reference(&rules, &feats);
                    match guard(|| rewrite(&rules, &feats)) {
                        Ok(g) if g == want => {}
                        other => st.violation(Finding {
                            class: "rule-output-semantics".into(),
                            what: format!("rule output {:?} on {ncols} features: got {:?}, expected {:?}", out, other, want),
                            replay: json!({"kind": "rewrite", "rules": [format!("{} {}", rules[0].0.join(","), out.join(","))], "features": feats}),
                        }),
                    }
                }
            }
        }
    }
    // dictionary level: the trainer applies each section's rewriter and falls back to the
    // ORIGINAL features when that section has no matching rule
    crate::props::train::dict_level_c17(tier, &mut st);
    rep.rule = "state = (ordered rule list of <= 3/4 rules whose patterns have 1-2 (thorough also 1-3) columns over {*, a, b, (a|b)} and whose output names the rule and references $1,$2,$3; feature list of length 0-3 over {a,b,c}); the real rewriter (rule-list hook and rewrite.def text with all section assignments of two rules) must return what the first rule in list order that matches position-wise as a prefix returns, or nothing; every output list of <= 3/4 items over {$1..$6, k} on lists of 0-4 columns, every list of <= 2 rules with cells from {*, (*), (a), (*|a), ((a)), (), (a|), a, (a|b), (|)} on 1-2 feature values from {a, *, (a), '', b, a|b, |}, and $1..$25 on long lists; plus, for really trained models whose rewrite.def has sections with and without catch-all rules, the connection classes and bigram.left/right tuples must be those of the reference rewrite (else: features unchanged) followed by the reference expansion; distinct = distinct outputs".into();
    rep.bounds = json!({"max_rules": tier.pick(3, 4), "pattern_columns": tier.pick("1-2", "1-2 (4 rules), 1-3 (3 rules)"), "feature_len": "0-3"});
    rep.assumptions = vec!["a pattern longer than the feature list does not match (the statement is silent; the code agrees)".into()];
    rep.finish(
        st,
        &[
            "cases_with_a_matching_rule",
            "cases_without_match",
            "cases_where_a_later_rule_shares_a_prefix_with_a_non_adjacent_earlier_rule",
            "rewrite_def_text_cases",
            "two_digit_reference_cases",
            "output_list_cases",
            "group_corner_cases",
            "trained_models_with_rewrite_rules",
            "rows_checked_for_connection_classes",
        ],
    )
}
