//! C12: with ignore_space, the amount of whitespace does not matter (metamorphic classes of
//! sentences with the same space-normal form, exhaustively).
use std::collections::HashMap;

use serde_json::json;

use crate::common::*;
use crate::real::*;
use crate::refmodel::*;
use crate::universe::*;

/// The space characters of the C12 universes: U+0020 and U+3000, and in the `odd-space`
/// universes U+00D0 (a SPACE member that is not Unicode White_Space; mecab-ipadic lists it so).
fn is_space(c: char) -> bool {
    c == ' ' || c == '\u{3000}' || c == '\u{00D0}'
}

fn normal_form(s: &str) -> String {
    let mut out = String::new();
    let mut pending = false;
    for c in s.chars() {
        if is_space(c) {
            pending = true;
        } else {
            if pending && !out.is_empty() {
                out.push(' ');
            }
            pending = false;
            out.push(c);
        }
    }
    out
}

fn u_space(tier: Tier) -> Vec<Universe> {
    let mut out = vec![];
    let (_, ranges) = lex_char_def();
    let al_settings: Vec<(u8, u8, u16)> = tier.pick(
        vec![(1, 0, 2), (1, 1, 0), (0, 1, 2), (0, 0, 0)],
        vec![(1, 0, 2), (1, 1, 0), (0, 1, 2), (0, 0, 0), (1, 1, 3), (0, 0, 1), (1, 0, 0), (0, 1, 0)],
    );
    for (xname, rows, _) in lex_menus() {
        if rows.iter().any(|r| r.surface.chars().any(is_space)) || xname == "multibyte" {
            continue;
        }
        for (si, &(sinv, sgrp, slen)) in [(0u8, 1u8, 0u16), (0, 0, 0), (1, 0, 2)].iter().enumerate() {
        for &(inv, grp, len) in &al_settings {
            if si > 0 && (inv, grp, len) != (1, 0, 2) && (inv, grp, len) != (0, 1, 2) {
                continue;
            }
            let mut conns: Vec<(String, usize, usize, Vec<i32>, ConnKind, Option<Bigram>)> = vec![];
            for style in [1usize, 2, 3, 4] {
                conns.push((format!("matrix3x3s{style}"), 3, 3, matrix_pattern(3, 3, style), ConnKind::Matrix, None));
            }
            for (k, kind) in [(3usize, ConnKind::Raw), (9, ConnKind::Dual)] {
                let b = lex_bigram(k, 3, 3);
                let (nr, nl, t) = b.table();
                conns.push((format!("{kind:?}K{k}"), nr, nl, t, kind, Some(b)));
            }
            for (cname, nr, nl, conn, kind, bigram) in conns {
                let cats = vec![cat("DEFAULT", 0, 1, 0), cat("SPACE", sinv, sgrp, slen), cat("AL", inv, grp, len), cat("KJ", 0, 0, 1)];
                let sys: Vec<Row> = rows
                    .iter()
                    .map(|r| Row {
                        left: r.left % nl as u16,
                        right: r.right % nr as u16,
                        ..r.clone()
                    })
                    .collect();
                out.push(Universe {
                    name: format!("space/{xname}/SPACE={sinv}{sgrp}{slen}/AL={inv}{grp}{len}/{cname}"),
                    dict: RefDict {
                        cats,
                        ranges: ranges.clone(),
                        unk: lex_unk_rows(nr, nl),
                        sys,
                        user: None,
                        nr,
                        nl,
                        conn,
                        kind,
                        bigram,
                        astral_takes_nul: false,
                default_line_pos: 0,
                    },
                    alphabet: vec!['a', 'b', ' ', '\u{3000}', 'c'],
                    opts: vec![
                        Opts {
                            ignore_space: true,
                            mgl: 0,
                        },
                        Opts {
                            ignore_space: true,
                            mgl: 1,
                        },
                    ],
                    k1: false,
                    mapping: None,
                    extra_sentences: vec![],
                });
            }
        }
        }
    }
    // user lexicon axis: cheap user words so that they lie on best paths right after skipped runs
    let n = out.len();
    for i in (0..n).step_by(2) {
        let mut u = out[i].clone();
        let (nr, nl) = (u.dict.nr as u16, u.dict.nl as u16);
        u.dict.user = Some(vec![
            row("b", 2 % nl, 1 % nr, -40, "user-b"),
            row("bc", 1 % nl, 1 % nr, -10, "user-bc"),
            row("ca", 1 % nl, 2 % nr, -60, "user-ca"),
            row("a", 2 % nl, 2 % nr, 25, "user-a"),
        ]);
        u.name.push_str("/user");
        out.push(u);
    }
    // a SPACE category that also holds a character which is not Unicode White_Space (U+00D0)
    let n = out.len();
    for i in (0..n).step_by(5) {
        let mut u = out[i].clone();
        u.dict.ranges.push((0xD0, 0xD0, vec![CAT_SPACE]));
        u.alphabet = vec!['a', 'b', ' ', '\u{00D0}', 'c'];
        u.name.push_str("/odd-space");
        out.push(u);
    }
    // the SPACE range lines given in descending code-point order, one after the other (line order
    // has no meaning in char.def)
    let n = out.len();
    for i in (0..n).step_by(6) {
        let mut u = out[i].clone();
        let mut space_lines: Vec<(u32, u32, Vec<usize>)> = u.dict.ranges.iter().filter(|r| r.2 == vec![CAT_SPACE]).cloned().collect();
        u.dict.ranges.retain(|r| r.2 != vec![CAT_SPACE]);
        space_lines.sort_by(|a, b| b.0.cmp(&a.0));
        u.dict.ranges.extend(space_lines);
        u.name.push_str("/descending-space-lines");
        out.push(u);
    }
    // a category whose name differs from SPACE only in case ("Space", without characters) declared
    // BEFORE the real SPACE category: names are case-sensitive, the real one must be the one skipped
    let n = out.len();
    for i in (0..n).step_by(7) {
        let mut u = out[i].clone();
        let real = u.dict.cats[1].clone();
        u.dict.cats[1].name = "Space".into();
        u.dict.cats.push(real);
        let sid = u.dict.cats.len() - 1;
        for r in u.dict.ranges.iter_mut() {
            for k in r.2.iter_mut() {
                if *k == 1 {
                    *k = sid;
                }
            }
        }
        for r in u.dict.unk.iter_mut() {
            if r.cat == 1 {
                r.cat = sid;
            }
        }
        u.name.push_str("/lookalike-Space-before-SPACE");
        out.push(u);
    }
    // char.def with DEFAULT defined after SPACE / at the end (same ids, different line order)
    let n = out.len();
    for i in (0..n).step_by(5) {
        for pos in [1usize, 3] {
            let mut u = out[i].clone();
            u.dict.default_line_pos = pos;
            u.name.push_str(&format!("/DEFAULT-line@{pos}"));
            out.push(u);
        }
    }
    out
}

type Key = Vec<(String, String, i16, u16, u16, i32, u8)>;

fn key(toks: &[Tok]) -> Key {
    toks.iter().map(|t| (t.surface.clone(), t.feature.clone(), t.cost, t.left, t.right, t.total, t.lex)).collect()
}

pub fn run(tier: Tier) -> i32 {
    let mut rep = Report::new("C12", tier);
    let us = u_space(tier);
    let max_len = tier.pick(6, 8);
    let mut st = par_explore(us.len(), |ui, st| {
        let u = &us[ui];
        let mut sentences = all_strings(&u.alphabet, max_len);
        // space runs around 255 / 256 characters (every 6th dictionary)
        if ui % 6 == 0 {
            for n in [255usize, 256, 257, 300] {
                let sp = " ".repeat(n);
                let wide = "\u{3000}".repeat(n);
                for s in [format!("a{sp}b"), format!("{sp}ab"), format!("ab{sp}"), sp.clone(), format!("a{wide}b"), format!("ab{sp}c{sp}")] {
                    sentences.push(s);
                }
            }
            st.count("dictionaries_with_space_runs_beyond_255");
        }
        for &opts in &u.opts {
            let (d, rd) = u.build().unwrap_or_else(|e| {
                println!("MACHINERY: {} does not build: {e}", u.name);
                std::process::exit(2)
            });
            let t = make_tokenizer(d, opts).unwrap();
            let order = rd.unk_order();
            let mut classes: HashMap<String, (String, Key, u32)> = HashMap::new();
            // the same sentences on ONE reused worker, in enumeration order and (afterwards) in
            // reverse order: re-spacing must not matter there either
            let mut reused = t.new_worker();
            let mut fresh_keys: Vec<Option<Key>> = Vec::with_capacity(sentences.len());
            for s in &sentences {
                st.states += 1;
                if !s.is_empty() {
                    st.transitions += 1;
                }
                let run = match run_fresh(&t, s, false) {
                    Ok(r) => r,
                    Err(p) => {
                        st.violation(Finding {
                            class: format!("panic@{}", panic_site(&p)),
                            what: format!("tokenize panicked: {p} [{} {:?} {:?}]", u.name, opts, s),
                            replay: json!({"kind": "tokenize", "dictionary": u.describe(), "sentence": s, "ignore_space": true, "max_grouping_len": opts.mgl}),
                        });
                        fresh_keys.push(None);
                        continue;
                    }
                };
                let nf = normal_form(s);
                let k = key(&run.tokens);
                fresh_keys.push(Some(k.clone()));
                {
                    let w = &mut reused;
                    let r = guard(|| {
                        w.reset_sentence(s);
                        w.tokenize();
                        key(&read_tokens(w))
                    });
                    st.count("sentences_on_a_reused_worker");
                    if r.as_ref().ok() != Some(&k) {
                        st.violation(Finding {
                            class: "reused-worker-respacing-changes-tokens".into(),
                            what: format!("{:?} on a reused worker (after the preceding sentences of the enumeration) gives {:?}, on a fresh worker {:?} [{} {:?}]", s, r.as_ref().map(|k| k.iter().map(|x| (&x.0, x.5)).collect::<Vec<_>>()), k.iter().map(|x| (&x.0, x.5)).collect::<Vec<_>>(), u.name, opts),
                            replay: json!({"kind": "tokenize", "dictionary": u.describe(), "sentence": s, "ignore_space": true, "max_grouping_len": opts.mgl, "note": "reused worker, enumeration order"}),
                        });
                        reused = t.new_worker();
                    }
                }
                // space characters are skipped, never tokenized
                if run.tokens.iter().any(|t| t.surface.chars().any(is_space)) {
                    st.violation(Finding {
                        class: "space-tokenized".into(),
                        what: format!("a token covers a space character [{} {:?} {:?}]", u.name, opts, s),
                        replay: json!({"kind": "tokenize", "dictionary": u.describe(), "sentence": s, "ignore_space": true, "max_grouping_len": opts.mgl}),
                    });
                    continue;
                }
                if nf.is_empty() {
                    st.count("sentences_of_spaces_only_or_empty");
                    if !run.tokens.is_empty() {
                        st.violation(Finding {
                            class: "spaces-only-yields-tokens".into(),
                            what: format!("a sentence of spaces only yields {} tokens [{} {:?} {:?}]", run.tokens.len(), u.name, opts, s),
                            replay: json!({"kind": "tokenize", "dictionary": u.describe(), "sentence": s, "ignore_space": true, "max_grouping_len": opts.mgl}),
                        });
                    }
                    continue;
                }
                match classes.get_mut(&nf) {
                    None => {
                        // first member (shortest: the normal form itself comes first in BFS order
                        // among its class): check it against the reference model as well
                        let a = rd.analyze_with(s, opts, true, &order);
                        let total = run.tokens.last().map(|t| i64::from(t.total) + rd.conn(t.right, 0));
                        if a.best != total {
                            st.violation(Finding {
                                class: "normal-form-not-optimal".into(),
                                what: format!("tokens of {:?} cost {:?} but the reference minimum is {:?} [{} {:?}]", s, total, a.best, u.name, opts),
                                replay: json!({"kind": "tokenize", "dictionary": u.describe(), "sentence": s, "ignore_space": true, "max_grouping_len": opts.mgl}),
                            });
                        }
                        st.outcome(&(&u.name, opts, &k));
                        classes.insert(nf, (s.clone(), k, 1));
                    }
                    Some((first, k0, n)) => {
                        *n += 1;
                        if *k0 != k {
                            st.violation(Finding {
                                class: "respacing-changes-tokens".into(),
                                what: format!(
                                    "{:?} and {:?} differ only in their space runs but tokenize differently: {:?} vs {:?} [{} {:?}]",
                                    first,
                                    s,
                                    k0.iter().map(|x| (&x.0, x.5)).collect::<Vec<_>>(),
                                    k.iter().map(|x| (&x.0, x.5)).collect::<Vec<_>>(),
                                    u.name,
                                    opts
                                ),
                                replay: json!({"kind": "tokenize_pair", "dictionary": u.describe(), "sentence": s, "other_sentence": first, "ignore_space": true, "max_grouping_len": opts.mgl}),
                            });
                        }
                    }
                }
            }
            // reverse order (longer sentences first) on one worker
            {
                let mut reused = t.new_worker();
                let mut reported = 0;
                for (s, fk) in sentences.iter().zip(&fresh_keys).rev() {
                    let Some(fk) = fk else { continue };
                    let w = &mut reused;
                    let r = guard(|| {
                        w.reset_sentence(s);
                        w.tokenize();
                        key(&read_tokens(w))
                    });
                    st.count("sentences_on_a_reused_worker");
                    if r.as_ref().ok() != Some(fk) {
                        if reported < 3 {
                            st.violation(Finding {
                                class: "reused-worker-respacing-changes-tokens".into(),
                                what: format!("{:?} on a reused worker (after longer sentences) gives {:?}, on a fresh worker {:?} [{} {:?}]", s, r.as_ref().map(|k| k.iter().map(|x| (&x.0, x.5)).collect::<Vec<_>>()), fk.iter().map(|x| (&x.0, x.5)).collect::<Vec<_>>(), u.name, opts),
                                replay: json!({"kind": "tokenize", "dictionary": u.describe(), "sentence": s, "ignore_space": true, "max_grouping_len": opts.mgl, "note": "reused worker, reverse enumeration order"}),
                            });
                        }
                        reported += 1;
                        reused = t.new_worker();
                    }
                }
            }
            for (nf, (_, k, n)) in &classes {
                st.count("classes");
                if *n >= 3 {
                    st.count("classes_with_3+_members");
                }
                if nf.contains(' ') {
                    st.count("classes_with_inner_gap");
                    // a grouped unknown word (length >= 2) adjacent to a gap
                    let mut pos = 0usize;
                    let chars: Vec<char> = nf.chars().collect();
                    for t in k {
                        let len = t.0.chars().count();
                        // advance over a gap
                        if pos < chars.len() && chars[pos] == ' ' {
                            pos += 1;
                        }
                        let end = pos + len;
                        let next_is_gap = end < chars.len() && chars[end] == ' ';
                        let prev_is_gap = pos > 0 && chars[pos - 1] == ' ';
                        if t.6 == 1 && prev_is_gap {
                            st.count("user_words_right_after_a_gap");
                        }
                        if t.6 == 2 && len >= 2 && (next_is_gap || prev_is_gap) {
                            st.count("grouped_unknown_words_adjacent_to_a_gap");
                        }
                        pos = end;
                    }
                }
            }
            if ui % 7 == 0 && opts.mgl == 0 {
                if let Some((nf, (_, k, n))) = classes.iter().find(|(nf, _)| nf.contains(' ') && nf.len() >= 4) {
                    st.sample(json!({"universe": u.name, "normal_form": nf, "members": n, "tokens": k.iter().map(|x| x.0.clone()).collect::<Vec<_>>()}));
                }
            }
        }
    });
    // ignore_space on a dictionary without SPACE -> Err (category names are case-sensitive)
    for other in ["BLANK", "space", "Space", "sPACE", "SPACES", "SPAC"] {
        let mut u = us[0].clone();
        u.dict.cats[1].name = other.into();
        let (d, _) = u.build().unwrap();
        st.states += 1;
        st.transitions += 1;
        st.count("ignore_space_without_SPACE_category");
        match make_tokenizer(d, Opts { ignore_space: true, mgl: 0 }) {
            Err(e) if e.starts_with("Err") => {}
            other => st.violation(Finding {
                class: "ignore-space-without-SPACE-accepted".into(),
                what: format!("ignore_space(true) on a dictionary without a SPACE category: expected Err, got {}", if other.is_ok() { "Ok".to_string() } else { other.err().unwrap() }),
                replay: json!({"kind": "ignore_space", "dictionary": u.describe()}),
            }),
        }
        // and ignore_space(false) is accepted there
        let (d, _) = u.build().unwrap();
        if make_tokenizer(d, Opts { ignore_space: false, mgl: 0 }).is_err() {
            st.violation(Finding {
                class: "ignore-space-false-rejected".into(),
                what: "ignore_space(false) rejected on a dictionary without SPACE".into(),
                replay: json!({"kind": "ignore_space", "dictionary": u.describe()}),
            });
        }
    }
    rep.rule = format!("state = (dictionary meeting C12's precondition (half of them with a user lexicon), max_grouping_len, sentence over {{a,b,c,U+0020,U+3000}} (or U+00D0 as a second, non-White_Space member of SPACE) of length <= {max_len}); sentences are grouped by space-normal form and every member of a class must yield the same (surface, feature, word cost, ids, total cost, lexicon type) sequence; the first member of each class is also checked against the reference minimum; every sentence is also tokenized on one reused worker, in enumeration order and in reverse order, and must give the fresh-worker tokens; distinct = distinct (dictionary, options, class token sequence)");
    rep.bounds = json!({"max_sentence_len": max_len, "universes": us.len()});
    rep.finish(
        st,
        &[
            "classes_with_3+_members",
            "classes_with_inner_gap",
            "grouped_unknown_words_adjacent_to_a_gap",
            "sentences_of_spaces_only_or_empty",
            "ignore_space_without_SPACE_category",
            "dictionaries_with_space_runs_beyond_255",
            "user_words_right_after_a_gap",
            "sentences_on_a_reused_worker",
        ],
    )
}
