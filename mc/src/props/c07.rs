//! C07: compact bigram connectors compute the defining feature-pair sum.
//! (1) scorer double array on exhaustive key sets, (2) raw/dual connectors against the
//! string-level sum on bigram-model families, (3) raw = dual = materialised matrix on
//! tokenization; layers (1)-(2) are repeated by the AVX2 build of the harness (E5).
use serde_json::json;
use vibrato::verif::{scorer_roundtrip_table, scorer_table};

use crate::common::*;
use crate::real::*;
use crate::refmodel::*;
use crate::universe::*;

const INV: u32 = 0x7fff_ffff;

fn build_name() -> &'static str {
    if cfg!(target_feature = "avx2") {
        "avx2"
    } else {
        "portable"
    }
}

fn pad8(v: &[u32]) -> Vec<u32> {
    let mut v = v.to_vec();
    while v.len() % 8 != 0 || v.is_empty() {
        v.push(INV);
    }
    v
}

fn check_scorer(entries: &[(u32, u32, i32)], q1: &[u32], q2: &[u32], roundtrip: bool, st: &mut Stats) {
    st.states += 1;
    st.transitions += 1;
    let lookup = |a: u32, b: u32| -> i32 { entries.iter().find(|e| e.0 == a && e.1 == b).map_or(0, |e| e.2) };
    // single-lane queries for every pair, one multi-chunk query with all pairs
    let mut queries: Vec<(Vec<u32>, Vec<u32>)> = vec![];
    let mut expected: Vec<i32> = vec![];
    let mut all1 = vec![];
    let mut all2 = vec![];
    for &a in q1 {
        for &b in q2 {
            queries.push((pad8(&[a]), pad8(&[b])));
            expected.push(lookup(a, b));
            all1.push(a);
            all2.push(b);
        }
    }
    expected.push(all1.iter().zip(&all2).map(|(&a, &b)| lookup(a, b)).sum());
    queries.push((pad8(&all1), pad8(&all2)));
    let got = guard(|| if roundtrip { scorer_roundtrip_table(entries, &queries) } else { scorer_table(entries, &queries) });
    let case = || json!({"kind": "scorer", "build": build_name(), "entries": entries, "roundtrip": roundtrip});
    match got {
        Err(p) => st.violation(Finding {
            class: format!("scorer-Panic@{}", panic_site(&p)),
            what: format!("scorer build/lookup panicked: {p} [entries {:?}]", entries),
            replay: case(),
        }),
        Ok(None) => {
            println!("MACHINERY: scorer hook rejected keys");
            std::process::exit(2);
        }
        Ok(Some(g)) => {
            st.outcome(&g);
            if g != expected {
                let i = g.iter().zip(&expected).position(|(a, b)| a != b).unwrap();
                let (qa, qb) = if i < all1.len() { (all1[i], all2[i]) } else { (u32::MAX, u32::MAX) };
                st.violation(Finding {
                    class: if i < all1.len() {
                        if expected[i] == 0 { "scorer-phantom-cost".into() } else { "scorer-lost-or-wrong-cost".into() }
                    } else {
                        "scorer-accumulate-differs".into()
                    },
                    what: format!("[{}{}] key set {:?}: lookup ({qa},{qb}) gives {} instead of {}", build_name(), if roundtrip { ", after encode/decode" } else { "" }, entries, g[i], expected[i]),
                    replay: case(),
                });
            }
        }
    }
}

fn layer_scorer(tier: Tier, st: &mut Stats) {
    let k1s = [0u32, 1, 2, 5];
    let k2s = [0u32, 1, 2, 3];
    let q1 = [0u32, 1, 2, 5, 6, INV];
    let q2 = [0u32, 1, 2, 3, 7, INV];
    let grid: Vec<(u32, u32)> = k1s.iter().flat_map(|&a| k2s.iter().map(move |&b| (a, b))).collect();
    let res = par_explore(1 << 10, |hi, st| {
        for lo in 0..(1u32 << 6) {
            let mask = ((hi as u32) << 6) | lo;
            let entries: Vec<(u32, u32, i32)> = grid.iter().enumerate().filter(|(i, _)| mask & (1 << i) != 0).map(|(i, &(a, b))| (a, b, match i % 5 {
                // costs beyond 16 bits (the scorer keeps 32-bit costs), small ones otherwise
                1 => 40_000 + i as i32,
                3 => -70_000 - i as i32,
                _ => (i as i32 + 1) * if i % 3 == 0 { -7 } else { 11 },
            })).collect();
            check_scorer(&entries, &q1, &q2, false, st);
            st.count("scorer_key_sets_4x4");
            if mask % 16 == 5 {
                check_scorer(&entries, &q1, &q2, true, st);
                st.count("scorer_key_sets_roundtrip");
            }
        }
    });
    st.merge(res);
    // dense grids with large keys
    for (n1, n2, stride) in [(40u32, 40u32, 1u32), (20, 30, 1637), (3, 3, 65535)] {
        let mut entries = vec![];
        for a in 0..n1 {
            for b in 0..n2 {
                if (a * 7 + b * 3) % 5 != 0 {
                    entries.push((a * stride, b * stride, (a * 100 + b) as i32 - 50));
                }
            }
        }
        let q1: Vec<u32> = (0..n1 + 2).map(|a| a * stride).chain([INV]).collect();
        let q2: Vec<u32> = (0..n2 + 2).map(|b| b * stride).chain([INV]).collect();
        check_scorer(&entries, &q1, &q2, false, st);
        check_scorer(&entries, &q1, &q2, true, st);
        st.count("scorer_dense_grids");
    }
    if tier == Tier::Thorough {
        // all subsets of size <= 5 of a 6x6 grid
        let k1s = [0u32, 1, 2, 3, 4, 9];
        let k2s = [0u32, 1, 2, 3, 6, 8];
        let q1 = [0u32, 1, 2, 3, 4, 9, 10, INV];
        let q2 = [0u32, 1, 2, 3, 6, 8, 5, INV];
        let grid: Vec<(u32, u32)> = k1s.iter().flat_map(|&a| k2s.iter().map(move |&b| (a, b))).collect();
        let res = par_explore(grid.len(), |first, st| {
            fn rec(grid: &[(u32, u32)], start: usize, cur: &mut Vec<usize>, q1: &[u32], q2: &[u32], st: &mut Stats) {
                let entries: Vec<(u32, u32, i32)> = cur.iter().map(|&i| (grid[i].0, grid[i].1, i as i32 * 13 - 100)).collect();
                check_scorer(&entries, q1, q2, false, st);
                st.count("scorer_key_sets_6x6_upto5");
                if cur.len() == 5 {
                    return;
                }
                for j in start..grid.len() {
                    cur.push(j);
                    rec(grid, j + 1, cur, q1, q2, st);
                    cur.pop();
                }
            }
            let mut cur = vec![first];
            rec(&grid, first + 1, &mut cur, &q1, &q2, st);
        });
        st.merge(res);
    }
}

/// Bigram-model family for layer (2).
pub fn models(tier: Tier) -> Vec<(String, Bigram)> {
    let mut out = vec![];
    // cost menu: 6 pairs incl. BOS/EOS entries, all subsets, 3 cost patterns
    let menu: [(&str, &str); 6] = [("x", "x"), ("x", "y"), ("p,q", "y"), ("", "x"), ("y", ""), ("", "")];
    let costs = [-3i32, 5, 300];
    let alphabet = ["", "x", "y", "*"];
    // K = 1: every row layout over the alphabet, 2 ids per side
    for r1 in alphabet {
        for r2 in alphabet {
            for l1 in alphabet {
                for l2 in alphabet {
                    for mask in 0..64u32 {
                        if tier == Tier::Quick && mask % 3 != 0 && mask != 63 && mask != 32 {
                            continue;
                        }
                        let cost: Vec<(String, String, i32)> = menu.iter().enumerate().filter(|(i, _)| mask & (1 << i) != 0).map(|(i, (a, b))| (a.to_string(), b.to_string(), costs[(i + mask as usize) % 3])).collect();
                        out.push((
                            format!("K1/{r1:?}{r2:?}|{l1:?}{l2:?}/m{mask}"),
                            Bigram {
                                right: vec![vec![r1.to_string()], vec![r2.to_string()]],
                                left: vec![vec![l1.to_string()], vec![l2.to_string()]],
                                cost,
                            },
                        ));
                    }
                }
            }
        }
    }
    // K >= 2: patterned rows (quoted feature, shared strings across positions, ragged rows)
    let feats = ["x", "y", "p,q", "*", ""];
    for k in [2usize, 3, 7, 8, 9, 16, 17] {
        for variant in 0..3usize {
            for nids in [2usize, 3] {
                let row = |side: usize, id: usize| -> Vec<String> {
                    let len = if (id + side + variant) % 3 == 0 && k > 1 { k - 1 } else { k };
                    (0..len).map(|p| feats[(p * (variant + 1) + id * 2 + side) % feats.len()].to_string()).collect()
                };
                let right: Vec<Vec<String>> = (1..=nids).map(|id| row(0, id)).collect();
                let left: Vec<Vec<String>> = (1..=nids).map(|id| row(1, id)).collect();
                for mask in [0u32, 1, 6, 21, 42, 56, 63, 32, 33] {
                    let cost: Vec<(String, String, i32)> = menu.iter().enumerate().filter(|(i, _)| mask & (1 << i) != 0).map(|(i, (a, b))| (a.to_string(), b.to_string(), costs[(i + variant) % 3])).collect();
                    out.push((format!("K{k}/v{variant}/n{nids}/m{mask}"), Bigram { right: right.clone(), left: left.clone(), cost }));
                }
            }
        }
    }
    // different widths on the two sides (the narrower side is padded with "no feature")
    for (kr, kl) in [(1usize, 2usize), (2, 1), (1, 9), (9, 1), (2, 9), (9, 2), (3, 8), (8, 3), (7, 9), (9, 17), (17, 9), (8, 16), (16, 8)] {
        for variant in 0..3usize {
            let row = |side: usize, id: usize, k: usize| -> Vec<String> { (0..k).map(|p| feats[(p * (variant + 1) + id * 2 + side) % feats.len()].to_string()).collect() };
            let right: Vec<Vec<String>> = (1..=2).map(|id| row(0, id, kr)).collect();
            let left: Vec<Vec<String>> = (1..=2).map(|id| row(1, id, kl)).collect();
            for mask in [1u32, 8, 16, 24, 32, 56, 63] {
                let cost: Vec<(String, String, i32)> = menu.iter().enumerate().filter(|(i, _)| mask & (1 << i) != 0).map(|(i, (a, b))| (a.to_string(), b.to_string(), costs[(i + variant) % 3])).collect();
                out.push((format!("Kr{kr}Kl{kl}/v{variant}/m{mask}"), Bigram { right: right.clone(), left: left.clone(), cost }));
            }
        }
    }
    // K = 24 / 25 / 33: three to five SIMD blocks; block 1 (positions 8..15) of right id 1 holds
    // only placeholders / unlisted features, listed pairs follow in later blocks
    for k in [24usize, 25, 33] {
        for variant in 0..2usize {
            let row = |side: usize, id: usize| -> Vec<String> {
                (0..k)
                    .map(|p| {
                        if side == 0 && id == 1 && (8..16).contains(&p) {
                            if variant == 0 { "*".to_string() } else { format!("unlisted{p}") }
                        } else {
                            feats[(p * (variant + 1) + id * 2 + side) % feats.len()].to_string()
                        }
                    })
                    .collect()
            };
            let right: Vec<Vec<String>> = (1..=2).map(|id| row(0, id)).collect();
            let left: Vec<Vec<String>> = (1..=2).map(|id| row(1, id)).collect();
            for mask in [3u32, 7, 63] {
                let cost: Vec<(String, String, i32)> = menu.iter().enumerate().filter(|(i, _)| mask & (1 << i) != 0).map(|(i, (a, b))| (a.to_string(), b.to_string(), costs[(i + variant) % 3])).collect();
                out.push((format!("K{k}/blocks/v{variant}/m{mask}"), Bigram { right: right.clone(), left: left.clone(), cost }));
            }
        }
    }
    // clamp universe: large costs, K = 17
    for mask in [63u32, 21] {
        let right: Vec<Vec<String>> = (1..=2).map(|id| (0..17).map(|p| if (p + id) % 2 == 0 { "x" } else { "y" }.to_string()).collect()).collect();
        let left = right.clone();
        let cost: Vec<(String, String, i32)> = menu.iter().enumerate().filter(|(i, _)| mask & (1 << i) != 0).map(|(i, (a, b))| (a.to_string(), b.to_string(), if i % 2 == 0 { 9000 } else { -8000 })).collect();
        out.push((format!("clamp/m{mask}"), Bigram { right, left, cost }));
    }
    out
}

fn layer_connector(tier: Tier, kf: &[KnownFinding], st: &mut Stats) {
    let ms = models(tier);
    let chr = "DEFAULT 0 1 0\n";
    let unk = "DEFAULT,0,0,0,u\n";
    let lex = "a,1,1,0,f\n";
    let res = par_explore(ms.len(), |mi, st| {
        let (name, b) = &ms[mi];
        let k = b.num_templates();
        let (nr, nl, table) = b.table();
        for dual in [false, true] {
            st.states += 1;
            st.transitions += 1;
            let case = || json!({"kind": "bigram_connector", "build": build_name(), "model": name, "dual": dual,
                "bigram.right": Bigram::render_side(&b.right), "bigram.left": Bigram::render_side(&b.left), "bigram.cost": b.render_cost()});
            let built = guard(|| {
                vibrato::SystemDictionaryBuilder::from_readers_with_bigram_info(
                    lex.as_bytes(),
                    Bigram::render_side(&b.right).as_bytes(),
                    Bigram::render_side(&b.left).as_bytes(),
                    b.render_cost().as_bytes(),
                    chr.as_bytes(),
                    unk.as_bytes(),
                    dual,
                )
            });
            let d = match built {
                Err(p) => {
                    if dual && k < 8 && p.contains("dual_connector.rs") && is_open(kf, "C07", "F11") {
                        st.known("F11", "dual connector with fewer than 8 templates panics");
                        continue;
                    }
                    st.violation(Finding {
                        class: format!("connector-build-Panic@{}", panic_site(&p)),
                        what: format!("[{}] building the {} connector for model {name} (K={k}) panicked: {p}", build_name(), if dual { "dual" } else { "raw" }),
                        replay: case(),
                    });
                    continue;
                }
                Ok(Err(e)) => {
                    st.violation(Finding {
                        class: "valid-bigram-model-rejected".into(),
                        what: format!("model {name} rejected: {e}"),
                        replay: case(),
                    });
                    continue;
                }
                Ok(Ok(d)) => d,
            };
            st.count(if dual { "dual_connectors_built" } else { "raw_connectors_built" });
            st.count(&format!("models_K{}", k));
            if b.right.iter().map(|r| r.len()).max() != b.left.iter().map(|r| r.len()).max() {
                st.count("models_with_different_widths_per_side");
            }
            if d.verif_conn_dims() != (nr, nl) {
                st.violation(Finding {
                    class: "connector-dims".into(),
                    what: format!("model {name}: dims {:?}, expected {:?}", d.verif_conn_dims(), (nr, nl)),
                    replay: case(),
                });
                continue;
            }
            let abs_sum: i64 = b.cost.iter().map(|c| i64::from(c.2.abs())).max().unwrap_or(0) * k as i64;
            for r in 0..nr {
                for l in 0..nl {
                    st.count("id_pairs_compared");
                    if r == 0 || l == 0 {
                        st.count("id_pairs_with_bos_eos");
                    }
                    if dual && abs_sum > 32767 {
                        st.count("dual_pairs_skipped_possible_clamp");
                        continue;
                    }
                    let got = match guard(|| d.verif_conn_cost(r as u16, l as u16)) {
                        Ok(v) => v,
                        Err(p) => {
                            st.violation(Finding {
                                class: format!("connector-cost-Panic@{}", panic_site(&p)),
                                what: format!("cost({r},{l}) panicked: {p} [model {name}]"),
                                replay: case(),
                            });
                            break;
                        }
                    };
                    let want = table[r * nl + l];
                    if got != want {
                        st.violation(Finding {
                            class: format!(
                                "{}-cost-differs{}",
                                if dual { "dual" } else { "raw" },
                                if r == 0 && l == 0 { "-bos-eos-pair" } else if r == 0 || l == 0 { "-bos-or-eos" } else { "" }
                            ),
                            what: format!("[{}] model {name} (K={k}): {} cost({r},{l}) = {got}, defining sum = {want}", build_name(), if dual { "dual" } else { "raw" }),
                            replay: case(),
                        });
                        break;
                    }
                }
            }
            st.outcome(&(name, dual));
        }
        if mi % 1999 == 0 {
            st.sample(json!({"model": name, "bigram.right": Bigram::render_side(&b.right), "bigram.cost": b.render_cost()}));
        }
    });
    st.merge(res);
}

/// Layer (3): raw, dual and the materialised matrix tokenize identically.
fn layer_tokenize(tier: Tier, st: &mut Stats) {
    let mut us = u_lex(tier);
    us.retain(|u| u.dict.bigram.is_some() && u.mapping.is_none());
    let max_len = tier.pick(4, 6);
    let res = par_explore(us.len(), |ui, st| {
        let u = &us[ui];
        let mut m = u.clone();
        m.dict.kind = ConnKind::Matrix;
        let mut other = u.clone();
        other.dict.kind = if u.dict.kind == ConnKind::Raw { ConnKind::Dual } else { ConnKind::Raw };
        let k = u.dict.bigram.as_ref().unwrap().num_templates();
        let sentences = all_strings(&u.alphabet, max_len);
        for &opts in &u.opts {
            let mut toks = vec![];
            let fits_i16 = u.dict.conn.iter().all(|c| (-32768..=32767).contains(c));
            for v in [u, &m, &other] {
                // matrix.def cells are 16-bit: the materialised matrix exists only if every sum fits;
                // the dual connector is comparable only under the statement's 16-bit condition
                if (v.dict.kind == ConnKind::Matrix || (v.dict.kind == ConnKind::Dual && !std::ptr::eq(v, u))) && !fits_i16 {
                    toks.push(None);
                    continue;
                }
                let (d, _) = v.build().unwrap_or_else(|e| {
                    println!("MACHINERY: {} ({:?}) does not build: {e}", v.name, v.dict.kind);
                    std::process::exit(2)
                });
                toks.push(Some(make_tokenizer(d, opts).unwrap()));
            }
            for s in &sentences {
                st.states += 1;
                st.transitions += 1;
                let base = run_fresh(toks[0].as_ref().unwrap(), s, false).map(|r| r.tokens);
                for (i, t) in toks.iter().enumerate().skip(1) {
                    let Some(t) = t else { continue };
                    let other = run_fresh(t, s, false).map(|r| r.tokens);
                    st.count("tokenizations_compared_across_connector_kinds");
                    if other != base {
                        st.violation(Finding {
                            class: "connector-kinds-tokenize-differently".into(),
                            what: format!("{:?} tokenizes differently with the {:?} connector and the {} [{} {:?}]", s, u.dict.kind, if i == 1 { "materialised matrix" } else { "other compact connector" }, u.name, opts),
                            replay: json!({"kind": "tokenize", "dictionary": u.describe(), "sentence": s, "ignore_space": opts.ignore_space, "max_grouping_len": opts.mgl}),
                        });
                    }
                }
                if let Ok(b) = &base {
                    st.outcome(&(ui, opts, b));
                }
            }
        }
    });
    st.merge(res);
}

pub fn core(tier: Tier) -> Stats {
    let kf = load_known_findings();
    let mut st = Stats::default();
    layer_scorer(tier, &mut st);
    layer_connector(tier, &kf, &mut st);
    st
}

/// Entry point used by the parent through the AVX2 binary: prints a summary the parent parses.
pub fn core_cli(tier: Tier) -> i32 {
    let st = core(tier);
    for f in st.violations.iter().take(6) {
        println!("COREVIOLATION\t{}\t{}\t{}", f.class, f.what.replace(['\n', '\t'], " "), serde_json::to_string(&f.replay).unwrap());
    }
    for (k, (n, w)) in &st.known {
        println!("COREKNOWN\t{k}\t{n}\t{w}");
    }
    println!("CORESTATS\t{}\t{}\t{}\t{}", st.states, st.transitions, st.violation_count, st.distinct.len());
    if st.violation_count > 0 {
        1
    } else {
        0
    }
}

pub fn run(tier: Tier) -> i32 {
    let mut rep = Report::new("C07", tier);
    let mut st = core(tier);
    layer_tokenize(tier, &mut st);
    // E5: the AVX2 build repeats layers (1) and (2) against the same reference
    const AVX2_BIN: &str = "/verif/target-avx2/release/vmc";
    if cfg!(target_feature = "avx2") {
        st.notes.push("this binary is itself the AVX2 build".into());
    } else if !std::is_x86_feature_detected!("avx2") {
        st.notes.push("E5 skipped: CPU lacks AVX2".into());
        st.count("e5_skipped_no_avx2");
    } else if !std::path::Path::new(AVX2_BIN).exists() {
        println!("MACHINERY: AVX2 build of the harness is missing ({AVX2_BIN}); bin/check builds it");
        return 2;
    } else {
        let out = std::process::Command::new(AVX2_BIN).args(["c07-core", tier.name()]).output();
        match out {
            Err(e) => {
                println!("MACHINERY: cannot run the AVX2 harness: {e}");
                return 2;
            }
            Ok(o) => {
                let txt = String::from_utf8_lossy(&o.stdout).to_string();
                let mut seen_stats = false;
                for l in txt.lines() {
                    let p: Vec<&str> = l.split('\t').collect();
                    match p[0] {
                        "COREVIOLATION" if p.len() >= 4 => st.violation(Finding {
                            class: format!("avx2-{}", p[1]),
                            what: p[2].to_string(),
                            replay: serde_json::from_str(p[3]).unwrap_or(json!({})),
                        }),
                        "COREKNOWN" if p.len() >= 4 => st.known(p[1], p[3]),
                        "CORESTATS" if p.len() >= 5 => {
                            seen_stats = true;
                            let n: u64 = p[1].parse().unwrap_or(0);
                            st.states += n;
                            st.transitions += p[2].parse().unwrap_or(0);
                            st.add("e5_states_explored_by_the_avx2_build", n);
                        }
                        _ => {}
                    }
                }
                if !seen_stats {
                    println!("MACHINERY: AVX2 harness produced no summary (exit {:?})", o.status.code());
                    return 2;
                }
            }
        }
    }
    rep.rule = "(1) state = key set of the two-level XOR double array: all 2^16 subsets of a 4x4 key grid (thorough: all subsets of size <= 5 of a 6x6 grid) and dense grids with keys up to 2^22; every pair of a 6x6 query grid incl. absent keys, keys beyond the base array and the invalid id must return the listed cost or nothing, single-lane and as one multi-chunk accumulate, also after encode/decode; (2) state = (bigram model, connector kind): K=1 all row layouts over {'',x,y,*} x subsets of a 6-pair cost menu with BOS/EOS entries, K in {2,3,7,8,9,16,17} patterned rows (quoted feature, shared strings, ragged rows); every id pair incl. 0 equals the string-level defining sum (dual: whenever the sum of absolute costs fits 16 bits); (3) raw, dual and the matrix materialised from the reference sums tokenize every sentence identically; (1)-(2) are run by the portable and by the AVX2 build. distinct = distinct lookup tables / (model, kind) / token sequences".into();
    rep.bounds = json!({"sentence_len": tier.pick(4, 6)});
    let mut req = vec![
        "scorer_key_sets_4x4",
        "scorer_key_sets_roundtrip",
        "scorer_dense_grids",
        "raw_connectors_built",
        "dual_connectors_built",
        "id_pairs_with_bos_eos",
        "models_K1",
        "models_K9",
        "models_K17",
        "models_with_different_widths_per_side",
        "tokenizations_compared_across_connector_kinds",
    ];
    if st.get("e5_skipped_no_avx2") == 0 && !cfg!(target_feature = "avx2") {
        req.push("e5_states_explored_by_the_avx2_build");
    }
    rep.finish(st, &req)
}
