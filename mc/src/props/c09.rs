//! C09: truncated or foreign dictionary images are rejected (E4: every crash point).
use std::io::Read;

use serde_json::json;
use vibrato::Dictionary;

use crate::common::*;
use crate::dhist::*;

const MAGIC: &[u8] = b"VibratoTokenizer 0.5\n";

/// A reader that hands out at most `chunk` bytes per call.
struct ShortReader<'a> {
    data: &'a [u8],
    chunk: usize,
}

impl Read for ShortReader<'_> {
    fn read(&mut self, buf: &mut [u8]) -> std::io::Result<usize> {
        let n = buf.len().min(self.chunk).min(self.data.len());
        buf[..n].copy_from_slice(&self.data[..n]);
        self.data = &self.data[n..];
        Ok(n)
    }
}

fn read_class(data: &[u8], chunk: usize) -> String {
    let r = guard(|| {
        if chunk == 0 {
            Dictionary::read(data).map(|_| ())
        } else {
            Dictionary::read(ShortReader { data, chunk }).map(|_| ())
        }
    });
    match r {
        Err(p) => format!("Panic@{}", panic_site(&p)),
        Ok(Err(_)) => "Err".into(),
        Ok(Ok(())) => "Ok".into(),
    }
}

const MARKER_DIR: &str = "/verif/target/c09-markers";

fn marker(label: &str) {
    if std::env::var("VMC_C09_CHILD").is_ok() {
        let id = format!("{:?}", std::thread::current().id()).replace(|c: char| !c.is_ascii_alphanumeric(), "");
        let _ = std::fs::write(format!("{MARKER_DIR}/{id}.txt"), label);
    }
}

/// C09 feeds hostile streams to the reader; a reader that trusts a length field can abort the
/// whole process on an impossible allocation, which no `catch_unwind` sees. The exploration
/// therefore runs in a child process; if the child dies abnormally the streams that were in
/// flight (one marker per thread) are re-read one prefix at a time in further children, and the
/// abort is reported as a violation (the statement demands an error value).
pub fn run(tier: Tier) -> i32 {
    if std::env::var("VMC_C09_CHILD").is_ok() {
        if let Ok(probe) = std::env::var("VMC_C09_PROBE") {
            return run_inner(tier, Some(probe));
        }
        return run_inner(tier, None);
    }
    let exe = std::env::current_exe().expect("current_exe");
    let _ = std::fs::remove_dir_all(MARKER_DIR);
    let _ = std::fs::create_dir_all(MARKER_DIR);
    let spawn = |probe: Option<&str>| -> Option<i32> {
        let mut c = std::process::Command::new(&exe);
        c.args(["check", "C09", tier.name()]).env("VMC_C09_CHILD", "1");
        if let Some(p) = probe {
            c.env("VMC_C09_PROBE", p).stdout(std::process::Stdio::null());
        }
        c.status().ok().and_then(|s| s.code())
    };
    match spawn(None) {
        Some(c) if (0..=2).contains(&c) => return c,
        _ => {}
    }
    // abnormal death: collect the markers and localise
    let mut rep = Report::new("C09", tier);
    let mut st = Stats::default();
    let mut markers: Vec<String> = vec![];
    if let Ok(rd) = std::fs::read_dir(MARKER_DIR) {
        for e in rd.flatten() {
            if let Ok(t) = std::fs::read_to_string(e.path()) {
                markers.push(t);
            }
        }
    }
    markers.sort();
    markers.dedup();
    let mut located = vec![];
    for m in &markers {
        // block markers are "block <image idx> <mode> <start> <end> <image name>"
        let f: Vec<&str> = m.splitn(6, ' ').collect();
        if f.len() == 6 && f[0] == "block" {
            let _ = std::fs::remove_dir_all(MARKER_DIR);
            let _ = std::fs::create_dir_all(MARKER_DIR);
            let code = spawn(Some(&format!("{} {} {} {}", f[1], f[2], f[3], f[4])));
            if !matches!(code, Some(0)) {
                // the probe child died as well: its last marker names the prefix
                if let Ok(rd) = std::fs::read_dir(MARKER_DIR) {
                    for e in rd.flatten() {
                        if let Ok(t) = std::fs::read_to_string(e.path()) {
                            located.push(format!("{t} of the image of {}", f[5]));
                        }
                    }
                }
            }
        }
    }
    st.states += 1;
    st.transitions += 1;
    st.violation(Finding {
        class: "process-abort-on-hostile-stream".into(),
        what: format!(
            "Dictionary::read killed the process (abort, e.g. an impossible allocation) instead of returning an error; streams in flight: {:?}; localised: {:?}; see /verif/target/stderr-C09.log",
            markers, located
        ),
        replay: json!({"kind": "image_prefix_abort", "in_flight": markers, "localised": located}),
    });
    rep.rule = "the exploration child process died abnormally; in-flight streams re-read one prefix at a time in probe children".into();
    rep.bounds = json!({});
    rep.finish(st, &[])
}

fn run_inner(tier: Tier, probe: Option<String>) -> i32 {
    let mut rep = Report::new("C09", tier);
    let fams = family_d(tier);
    // images: each connector kind, plain and with user lexicon + mapper
    let mut images: Vec<(String, Vec<u8>)> = vec![];
    let _ = &mut images;
    for f in &fams {
        if !["D/matrix4x4", "D/raw-K3", "D/dual-K9"].contains(&f.name.as_str()) {
            continue;
        }
        for h in [vec![], vec![Op::Map(0), Op::LoadUser(0)]] {
            let d = exec_history(f, &h).unwrap_or_else(|_| {
                println!("MACHINERY: cannot build image");
                std::process::exit(2)
            });
            let (b, _) = write_bytes(&d).unwrap();
            images.push((format!("{}{}", f.name, if h.is_empty() { "" } else { "+user+mapper" }), b));
        }
    }
    // images with long payloads (strings / byte vectors far beyond any read-ahead block size):
    // a long feature in the last unk.def entry (the last payload of the image), a long lexicon
    // feature and a lexicon of several hundred words (large trie)
    let mut tail_only: Vec<usize> = vec![0; images.len()];
    {
        let long = |n: usize| -> String {
            // many columns: a single CSV field is limited to 4096 bytes
            let mut s = String::new();
            let mut i = 0;
            while s.len() < n {
                s.push_str(&format!("col{i}-xxxxxxxxxxxxxxxxxxxxxxxxxxxxxxxxxxxxxxxxxxxxxxxxxxxxxxxxxxxxxxxx,"));
                i += 1;
            }
            s.truncate(n);
            s
        };
        let lens: Vec<usize> = tier.pick(vec![10_000], vec![10_000, 4_095, 4_096, 4_097, 8_192, 20_000]);
        for (k, n) in lens.iter().enumerate() {
            let mut f = fams[0].clone();
            f.base.unk.last_mut().unwrap().feature = long(*n);
            f.base.sys[1].feature = long(5_000 + k);
            for i in 0..600 {
                f.base.sys.push(crate::universe::row(&format!("w{i}q{}", i * 7919 % 1000), 1, 1, 10, "bulk"));
            }
            let d = f.base.build_real().unwrap_or_else(|e| {
                println!("MACHINERY: long-payload dictionary does not build: {e}");
                std::process::exit(2)
            });
            let (b, _) = write_bytes(&d).unwrap();
            // the first of these images is enumerated completely, the others from 64 KiB before the end
            tail_only.push(if k == 0 { 0 } else { b.len().saturating_sub(65_536) });
            images.push((format!("D/matrix4x4+long-payloads({n})"), b));
        }
    }
    // a minimal dictionary: one category, one unk entry kind, one word (different data shapes
    // of the trailing payloads)
    {
        let mut f = fams[0].clone();
        f.base.cats = vec![crate::universe::cat("DEFAULT", 0, 1, 0)];
        f.base.ranges = vec![];
        f.base.unk = vec![crate::universe::unk(0, 1, 1, 100, "u1"), crate::universe::unk(0, 0, 0, 7, "u2,x"), crate::universe::unk(0, 2, 1, 9, "u3")];
        f.base.sys = vec![crate::universe::row("a", 1, 1, 3, "only-word")];
        let d = f.base.build_real().unwrap_or_else(|e| {
            println!("MACHINERY: minimal dictionary does not build: {e}");
            std::process::exit(2)
        });
        let (b, _) = write_bytes(&d).unwrap();
        tail_only.push(0);
        images.push(("minimal(DEFAULT-only)".to_string(), b));
    }
    // hundreds of homographs and of unknown entries (counts beyond 256)
    {
        let us = crate::universe::u_big(tier);
        for nm in ["big/homographs-257", "big/unk-entries-257"] {
            if let Some(u) = us.iter().find(|u| u.name == nm) {
                let d = u.dict.build_real().unwrap_or_else(|e| {
                    println!("MACHINERY: {nm} does not build: {e}");
                    std::process::exit(2)
                });
                let (b, _) = write_bytes(&d).unwrap();
                tail_only.push(b.len().saturating_sub(40_000));
                images.push((format!("{nm} (last 40000 prefixes)"), b));
            }
        }
    }
    // sanity: the full images are accepted
    for (name, img) in &images {
        if read_class(img, 0) != "Ok" {
            println!("MACHINERY: full image of {name} is not accepted");
            return 2;
        }
    }
    if let Some(p) = probe {
        let f: Vec<usize> = p.split(' ').filter_map(|x| x.parse().ok()).collect();
        if f.len() == 4 && f[0] < images.len() {
            let img = &images[f[0]].1;
            for k in f[2]..f[3].min(img.len()) {
                marker(&format!("prefix {k} (reader chunk {})", f[1]));
                let _ = read_class(&img[..k], f[1]);
            }
        }
        return 0;
    }
    const BLOCK: usize = 2048;
    let mut tasks: Vec<(usize, usize, usize)> = vec![]; // (image, chunk mode, block start)
    for (ii, (_, img)) in images.iter().enumerate() {
        let modes: Vec<usize> = match tier {
            Tier::Quick => {
                if ii == 1 || ii == 6 {
                    vec![0, 1]
                } else {
                    vec![0]
                }
            }
            Tier::Thorough => vec![0, 1, 7],
        };
        for m in modes {
            let mut s = tail_only[ii] / BLOCK * BLOCK;
            while s < img.len() {
                tasks.push((ii, m, s));
                s += BLOCK;
            }
        }
    }
    let mut st = par_explore(tasks.len(), |ti, st| {
        let (ii, mode, start) = tasks[ti];
        let (name, img) = &images[ii];
        let end = (start + BLOCK).min(img.len());
        marker(&format!("block {ii} {mode} {start} {end} {name}"));
        for k in start..end {
            // strict prefix of length k
            st.states += 1;
            st.transitions += 1;
            let c = read_class(&img[..k], mode);
            st.outcome(&(ii, mode, k.min(64), &c));
            if k < MAGIC.len() {
                st.count("prefixes_inside_magic");
            } else if k < img.len() - 300 {
                st.count("prefixes_inside_body");
            } else {
                st.count("prefixes_in_last_300_bytes");
            }
            if c != "Err" {
                st.violation(Finding {
                    class: format!("truncated-image-{c}"),
                    what: format!("Dictionary::read on the first {k} of {} bytes of the image of {name} (reader chunk {mode}): expected Err, got {c}", img.len()),
                    replay: json!({"kind": "image_prefix", "image_of": name, "prefix_len": k, "image_len": img.len(), "reader_chunk": mode}),
                });
            }
        }
        if start == 0 && mode == 0 {
            st.sample(json!({"image_of": name, "image_len": img.len(), "prefixes": "0..image_len (all)"}));
        }
    });
    // foreign / damaged magic
    for (name, img) in images.iter().take(2) {
        for pos in 0..MAGIC.len() {
            for rep_byte in 0u8..=255 {
                if rep_byte == img[pos] {
                    continue;
                }
                st.states += 1;
                st.transitions += 1;
                st.count("magic_single_byte_substitutions");
                marker(&format!("magic byte {pos} replaced by {rep_byte:#x} in the image of {name}"));
                let mut v = img.clone();
                v[pos] = rep_byte;
                let c = read_class(&v, 0);
                if c != "Err" {
                    st.violation(Finding {
                        class: format!("foreign-magic-{c}"),
                        what: format!("image of {name} with magic byte {pos} replaced by {rep_byte:#x}: expected Err, got {c}"),
                        replay: json!({"kind": "image_magic", "image_of": name, "pos": pos, "byte": rep_byte}),
                    });
                }
            }
        }
        // one byte deleted, one byte inserted, two neighbours exchanged
        let mut edited: Vec<(String, Vec<u8>)> = vec![];
        for pos in 0..MAGIC.len() {
            let mut h = MAGIC.to_vec();
            h.remove(pos);
            edited.push((format!("magic with byte {pos} deleted"), h));
            if pos + 1 < MAGIC.len() && MAGIC[pos] != MAGIC[pos + 1] {
                let mut h = MAGIC.to_vec();
                h.swap(pos, pos + 1);
                edited.push((format!("magic with bytes {pos},{} exchanged", pos + 1), h));
            }
        }
        for pos in 0..=MAGIC.len() {
            for ins in [b' ', b'\n', b'\t', b'\r', 0u8, b'0', b'V'] {
                let mut h = MAGIC.to_vec();
                h.insert(pos, ins);
                if h.starts_with(MAGIC) {
                    continue; // still starts with the magic: outside the statement
                }
                edited.push((format!("magic with {ins:#x} inserted at {pos}"), h));
            }
        }
        for (label, hdr) in &edited {
            st.states += 1;
            st.transitions += 1;
            st.count("magic_edits");
            let mut v = hdr.clone();
            v.extend_from_slice(&img[MAGIC.len()..]);
            let c = read_class(&v, 0);
            if c != "Err" {
                st.violation(Finding {
                    class: format!("foreign-header-{c}"),
                    what: format!("image of {name} with header '{label}': expected Err, got {c}"),
                    replay: json!({"kind": "image_magic", "image_of": name, "header_bytes": hdr}),
                });
            }
        }
        for (label, hdr) in [
            ("previous magic 0.4", &b"VibratoTokenizer 0.4\n"[..]),
            ("magic 0.6", &b"VibratoTokenizer 0.6\n"[..]),
            ("no magic", &b""[..]),
            ("lowercase", &b"vibratotokenizer 0.5\n"[..]),
            ("magic without newline", &b"VibratoTokenizer 0.5"[..]),
        ] {
            st.states += 1;
            st.transitions += 1;
            st.count("foreign_headers");
            let mut v = hdr.to_vec();
            v.extend_from_slice(&img[MAGIC.len()..]);
            let c = read_class(&v, 0);
            if c != "Err" {
                st.violation(Finding {
                    class: format!("foreign-header-{c}"),
                    what: format!("image of {name} with header '{label}': expected Err, got {c}"),
                    replay: json!({"kind": "image_magic", "image_of": name, "header": label}),
                });
            }
        }
    }
    rep.rule = "state = (image of one of 6 dictionaries: matrix/raw/dual, plain and with user lexicon + stored mapper; reader behaviour: whole slice, 1-byte and 7-byte short reads; prefix length k) for EVERY k in 0..len; plus every single-byte substitution of the magic (all 255 other values at each of the 21 positions), every one-byte deletion, neighbour exchange and 7 one-byte insertions at every position, and 5 foreign headers (streams that do start with the current magic are outside the statement); oracle: Err, no panic. A Write sink can only append, so a write interrupted at offset k leaves exactly the prefix k. distinct = distinct (image, reader, region, outcome)".into();
    rep.bounds = json!({"images": images.iter().map(|(n, b)| json!({"name": n, "len": b.len()})).collect::<Vec<_>>(), "reader_modes": tier.pick("slice on all images, 1-byte reads on 2", "slice, 1-byte, 7-byte on all")});
    rep.finish(st, &["prefixes_inside_magic", "prefixes_inside_body", "prefixes_in_last_300_bytes", "magic_single_byte_substitutions", "magic_edits", "foreign_headers"])
}
