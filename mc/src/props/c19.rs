//! C19: the corpus text format round-trips and accepts the tokenizer's output.
use serde_json::json;
use vibrato::trainer::Corpus;

use crate::common::*;
use crate::real::*;
use crate::universe::*;

const LINES: [&str; 11] = ["a\tF", "ab\tF,G", "\tF", "EOS\tF", "EOS", "a", "a\tF\tx", "", "b\tF, ", "c\t", "d\tG,\u{3000}"];

type Ex = Vec<(String, String)>;

/// Reference reader of the documented format.
fn reference(text: &str) -> Result<Vec<Ex>, ()> {
    let mut examples = vec![];
    let mut cur: Ex = vec![];
    let mut lines: Vec<&str> = text.split('\n').collect();
    if lines.last() == Some(&"") {
        lines.pop(); // the text ended with a newline (or is empty)
    }
    for line in lines {
        let line = line.strip_suffix('\r').unwrap_or(line);
        let parts: Vec<&str> = line.split('\t').collect();
        match parts.as_slice() {
            [s, f] => cur.push((s.to_string(), f.to_string())),
            ["EOS"] => {
                let surface: String = cur.iter().map(|t| t.0.as_str()).collect();
                if !surface.is_empty() {
                    examples.push(std::mem::take(&mut cur));
                } else {
                    cur.clear();
                }
            }
            _ => return Err(()),
        }
    }
    Ok(examples)
}

fn parse_real(text: &str) -> Result<Result<Vec<Ex>, String>, String> {
    guard(|| {
        Corpus::from_reader(text.as_bytes()).map_err(|e| e.to_string()).map(|c| {
            c.iter().map(|e| e.tokens().iter().map(|w| (w.surface().to_string(), w.feature().to_string())).collect()).collect()
        })
    })
}

fn write_real(text: &str) -> Result<Vec<u8>, String> {
    guard(|| {
        let c = Corpus::from_reader(text.as_bytes()).unwrap();
        let mut out = vec![];
        for e in c.iter() {
            e.write(&mut out).unwrap();
        }
        out
    })
}

fn sweep(menu: &[&str], depth: usize) -> Stats {
    let seqs = all_seqs(menu.len(), depth);
    const CHUNK: usize = 2048;
    let ntasks = seqs.len().div_ceil(CHUNK);
    par_explore(ntasks, |ti, st| {
        for seq in &seqs[ti * CHUNK..((ti + 1) * CHUNK).min(seqs.len())] {
            for final_newline in [true, false] {
                if seq.is_empty() && !final_newline {
                    continue;
                }
                let mut text = seq.iter().map(|&i| menu[i]).collect::<Vec<_>>().join("\n");
                if final_newline && !seq.is_empty() {
                    text.push('\n');
                }
                // a text that ends with an empty line but no newline is the same as one line less
                if !final_newline && seq.last().map_or(false, |&i| menu[i].is_empty()) {
                    continue;
                }
                st.states += 1;
                st.transitions += 1;
                let want = reference(&text);
                let got = parse_real(&text);
                let case = || json!({"kind": "corpus", "text": text});
                let got = match got {
                    Err(p) => {
                        st.violation(Finding {
                            class: format!("corpus-Panic@{}", panic_site(&p)),
                            what: format!("Corpus::from_reader panicked on {:?}: {p}", text),
                            replay: case(),
                        });
                        continue;
                    }
                    Ok(g) => g,
                };
                match (&want, &got) {
                    (Err(()), Err(_)) => {
                        st.count("malformed_corpora_rejected");
                        st.outcome(&"Err");
                    }
                    (Ok(w), Ok(g)) => {
                        st.outcome(g);
                        if w != g {
                            st.violation(Finding {
                                class: "corpus-examples-differ".into(),
                                what: format!("corpus {:?} parses to {:?}, the documented format gives {:?}", text, g, w),
                                replay: case(),
                            });
                            continue;
                        }
                        st.count("corpora_accepted");
                        if w.len() < seq.iter().filter(|&&i| menu[i] == "EOS").count() {
                            st.count("corpora_with_dropped_empty_sentences");
                        }
                        if w.iter().any(|e| e.iter().any(|t| t.0 == "EOS")) {
                            st.count("corpora_with_a_token_spelled_EOS");
                        }
                        // write back, compare bytes, re-parse
                        match write_real(&text) {
                            Err(p) => st.violation(Finding {
                                class: format!("corpus-write-Panic@{}", panic_site(&p)),
                                what: format!("Example::write panicked: {p}"),
                                replay: case(),
                            }),
                            Ok(bytes) => {
                                let mut expect = String::new();
                                for e in w {
                                    for (s, f) in e {
                                        expect.push_str(&format!("{s}\t{f}\n"));
                                    }
                                    expect.push_str("EOS\n");
                                }
                                if bytes != expect.as_bytes() {
                                    st.violation(Finding {
                                        class: "corpus-written-bytes-differ".into(),
                                        what: format!("writing the examples of {:?} gives {:?}, expected {:?}", text, String::from_utf8_lossy(&bytes), expect),
                                        replay: case(),
                                    });
                                    continue;
                                }
                                match parse_real(&expect) {
                                    Ok(Ok(g2)) if &g2 == g => st.count("write_reparse_roundtrips"),
                                    other => st.violation(Finding {
                                        class: "corpus-reparse-differs".into(),
                                        what: format!("re-parsing the written corpus of {:?} gives {:?}", text, other),
                                        replay: case(),
                                    }),
                                }
                            }
                        }
                    }
                    (Err(()), Ok(g)) => st.violation(Finding {
                        class: "malformed-corpus-accepted".into(),
                        what: format!("malformed corpus {:?} accepted as {:?}", text, g),
                        replay: case(),
                    }),
                    (Ok(w), Err(e)) => st.violation(Finding {
                        class: "well-formed-corpus-rejected".into(),
                        what: format!("corpus {:?} rejected ({e}) but the documented format gives {:?}", text, w),
                        replay: case(),
                    }),
                }
            }
        }
        if ti % 5 == 0 {
            let seq = &seqs[(ti * CHUNK + 77).min(seqs.len() - 1)];
            st.sample(json!({"corpus": seq.iter().map(|&i| menu[i]).collect::<Vec<_>>().join("\n")}));
        }
    })
}

pub fn run(tier: Tier) -> i32 {
    let mut rep = Report::new("C19", tier);
    let depth = tier.pick(4, 7);
    let mut st = sweep(&LINES, depth);
    // text-level corners: lines that begin with a byte-order mark, '#', blanks, look-alikes of EOS,
    // each at the start of the text and after other lines
    const SPECIAL: [&str; 16] = [
        "a\tF", "EOS", "\u{FEFF}a\tF", "\u{FEFF}\tF", "#a\tF", "# comment", " a\tF", "a \tF", "\u{3000}\tF", "EOS ", " EOS", "eos", "\u{FEFF}EOS", "a\t F", "[a]\tF", "//\tF",
    ];
    let sp = sweep(&SPECIAL, tier.pick(3, 4));
    st.add("special_line_corpora", sp.states);
    st.merge(sp);
    // closure: MeCab-style tokenizer output parses into exactly the tokenizer's tokens
    let mut us = u_lex(tier);
    us.retain(|u| u.name.contains("matrix3x3s1") || u.name.contains("RawK3"));
    // a lexicon with a word spelled EOS
    if let Some(u0) = us.first().cloned() {
        let mut u = u0;
        u.name = "lex/with-EOS-word".into();
        u.dict.sys.push(row("EOS", 1, 1, -100, "eos-word"));
        u.alphabet = vec!['E', 'O', 'S', 'a', ' '];
        us.push(u);
    }
    let max_len = tier.pick(4, 5);
    let res = par_explore(us.len(), |ui, st| {
        let u = &us[ui];
        for &opts in &u.opts {
            let (d, _) = u.build().unwrap_or_else(|e| {
                println!("MACHINERY: {} does not build: {e}", u.name);
                std::process::exit(2)
            });
            // every third dictionary is built from source files with CR (lexicon) and CRLF
            // (unk.def) record terminators instead of LF
            let d = if ui % 3 == 1 && u.dict.kind == crate::refmodel::ConnKind::Matrix && u.mapping.is_none() && u.dict.user.is_none() {
                let lex = crate::refmodel::RefDict::render_rows(&u.dict.sys).replace('\n', "\r");
                let unk = u.dict.render_unk_def().replace('\n', "\r\n");
                st.count("dictionaries_built_from_cr_terminated_sources");
                match guard(|| vibrato::SystemDictionaryBuilder::from_readers(lex.as_bytes(), u.dict.render_matrix_def().as_bytes(), u.dict.render_char_def().as_bytes(), unk.as_bytes())) {
                    Ok(Ok(d)) => d,
                    other => {
                        st.violation(Finding {
                            class: "cr-terminated-sources-rejected".into(),
                            what: format!("lexicon with CR record terminators rejected: {:?} [{}]", other.map(|r| r.map(|_| ()).map_err(|e| e.to_string())), u.name),
                            replay: json!({"kind": "build", "files": {"lex.csv": lex, "unk.def": unk}}),
                        });
                        continue;
                    }
                }
            } else {
                d
            };
            let t = make_tokenizer(d, opts).unwrap();
            for s in all_strings(&u.alphabet, max_len) {
                st.states += 1;
                st.transitions += 1;
                let Ok(run) = run_fresh(&t, &s, false) else { continue };
                // the same three writes per token as tokenize/src/main.rs, then EOS
                let mut out: Vec<u8> = vec![];
                for tk in &run.tokens {
                    out.extend_from_slice(tk.surface.as_bytes());
                    out.extend_from_slice(b"\t");
                    out.extend_from_slice(tk.feature.as_bytes());
                    out.extend_from_slice(b"\n");
                }
                out.extend_from_slice(b"EOS\n");
                let text = String::from_utf8(out).unwrap();
                let want: Vec<Ex> = if run.tokens.is_empty() { vec![] } else { vec![run.tokens.iter().map(|t| (t.surface.clone(), t.feature.clone())).collect()] };
                st.count("tokenizer_outputs_parsed_as_corpus");
                match parse_real(&text) {
                    Ok(Ok(g)) if g == want => {
                        st.outcome(&g);
                    }
                    other => st.violation(Finding {
                        class: "tokenizer-output-not-a-corpus".into(),
                        what: format!("MeCab-style output {:?} of sentence {:?} parses to {:?}, expected {:?} [{}]", text, s, other, want, u.name),
                        replay: json!({"kind": "corpus", "text": text, "sentence": s, "dictionary": u.describe()}),
                    }),
                }
            }
        }
    });
    st.merge(res);
    rep.rule = format!("state = corpus text: every sequence of <= {depth} lines from the 11-line menu {{token, token with 2 features, empty-surface token, token spelled EOS, EOS, line without tab, line with two tabs, empty line, feature ending in a space, empty feature, feature ending in U+3000}}, with and without final newline, and every sequence of <= 3/4 lines from a 16-line menu of text-level corners (lines starting with U+FEFF, '#', blanks, U+3000; look-alikes of EOS; '[a]', '//'); parse -> write each example -> re-parse, compared with a reference line reader; plus, for lexicon dictionaries and all tab-free sentences <= {max_len} chars, the MeCab-style output (same writes as the tokenize CLI) must parse into exactly the tokenizer's tokens; distinct = distinct parse results");
    rep.bounds = json!({"max_lines": depth, "closure_sentence_len": max_len});
    rep.assumptions = vec!["a corpus whose last sentence lacks EOS is outside the documented format: the reference, like the code, drops the unterminated tokens".into(), "the tokenize binary itself is not run (it needs zstd images); its three write_all calls per token are mirrored".into()];
    rep.finish(
        st,
        &["malformed_corpora_rejected", "corpora_accepted", "corpora_with_dropped_empty_sentences", "corpora_with_a_token_spelled_EOS", "write_reparse_roundtrips", "tokenizer_outputs_parsed_as_corpus", "dictionaries_built_from_cr_terminated_sources"],
    )
}
