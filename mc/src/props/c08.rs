//! C08: a user lexicon adds candidates and can be replaced or cleared.
use serde_json::json;

use crate::common::*;
use crate::dhist::*;
use crate::real::*;
use crate::refmodel::*;
use crate::universe::*;

/// (a) dictionary + user lexicon  ==  dictionary whose system lexicon is extended by the rows.
fn equivalence(tier: Tier, st: &mut Stats) {
    let mut us = u_lex(tier);
    us.retain(|u| u.dict.user.is_some() && u.mapping.is_none());
    let mut big = crate::universe::u_big(tier);
    big.retain(|u| u.dict.user.is_some());
    us.extend(big);
    let max_len = tier.pick(4, 6);
    // richer user menus on top of the universe's own
    let extra_users: Vec<Vec<Row>> = vec![
        vec![row("a", 1, 1, 30, "user-homograph-of-a"), row("abcab", 1, 1, -300, "user-long"), row("b", 1, 1, 32767, "user-max"), row("c", 1, 1, -32768, "user-min")],
        vec![row("あ", 1, 1, 3, "user-hira"), row("a b", 1, 1, 2, "user-with-space"), row("ab", 1, 1, 0, "\"q,r\",s")],
        // the file starts with a half-width form; rows starting with '#', a zero-width no-break
        // space (not at the start of the file, where it would be a byte-order mark) and a blank
        vec![row("\u{FF71}b", 1, 1, 4, "user-halfwidth-first"), row("#", 1, 1, 7, "user-hash "), row("\u{FEFF}a", 1, 1, 9, "user-zwnbsp"), row("", 1, 1, 1, "skipped-empty-surface-row"), row(" a", 1, 1, 5, ""), row("ab", 1, 1, 3, "\"q\r\nr\",crlf-inside-quotes")],
    ];
    let mut tasks = vec![];
    for (ui, _) in us.iter().enumerate() {
        for k in 0..=extra_users.len() {
            tasks.push((ui, k));
        }
    }
    let res = par_explore(tasks.len(), |ti, st| {
        let (ui, k) = tasks[ti];
        let mut u = us[ui].clone();
        if k > 0 {
            u.dict.user = Some(extra_users[k - 1].clone());
            u.name.push_str(&format!("/extra-user{k}"));
        }
        let user_rows = u.dict.user.clone().unwrap();
        for r in &user_rows {
            for c in r.surface.chars() {
                if !u.alphabet.contains(&c) && u.alphabet.len() < 7 {
                    u.alphabet.push(c);
                }
            }
        }
        // twin: system lexicon extended by the user rows (after the system rows)
        let mut twin = u.clone();
        twin.dict.user = None;
        // (rows with an empty surface are not words; the twin does not carry them at all, so the
        // two sides do not share the reader's treatment of such a row)
        twin.dict.sys.extend(user_rows.iter().filter(|r| !r.surface.is_empty()).cloned());
        let nsys = u.dict.sys.len();
        let sentences = all_strings(&u.alphabet, if u.name.starts_with("big/") { 3 } else { max_len });
        if u.dict.user.as_ref().map_or(0, |r| crate::refmodel::RefDict::render_rows(r).len()) > 8192 {
            st.count("user_lexicons_longer_than_8_KiB");
        }
        for &opts in &u.opts {
            let (d, rd) = u.build().unwrap_or_else(|e| {
                println!("MACHINERY: {} does not build: {e}", u.name);
                std::process::exit(2)
            });
            let (dt, _) = twin.build().unwrap_or_else(|e| {
                println!("MACHINERY: twin of {} does not build: {e}", u.name);
                std::process::exit(2)
            });
            let t = make_tokenizer(d, opts).unwrap();
            let tt = make_tokenizer(dt, opts).unwrap();
            for s in &sentences {
                st.states += 1;
                if !s.is_empty() {
                    st.transitions += 1;
                }
                let a = run_fresh(&t, s, true);
                let b = run_fresh(&tt, s, true);
                let (a, b) = match (a, b) {
                    (Ok(a), Ok(b)) => (a, b),
                    (Err(p), _) => {
                        st.violation(Finding {
                            class: format!("panic-with-user-lexicon@{}", panic_site(&p)),
                            what: format!("tokenize with a user lexicon panicked: {p} [{} {:?} {:?}]", u.name, opts, s),
                            replay: json!({"kind": "tokenize", "dictionary": u.describe(), "sentence": s, "ignore_space": opts.ignore_space, "max_grouping_len": opts.mgl}),
                        });
                        continue;
                    }
                    (_, Err(p)) => {
                        println!("MACHINERY: twin tokenization panicked: {p}");
                        std::process::exit(2);
                    }
                };
                st.outcome(&(&u.name, opts, &a.tokens));
                // candidates modulo lexicon type / word id; user word k <-> system word nsys + k
                let norm = |n: &RefNode, user_side: bool| {
                    let wid = match (n.lex, user_side) {
                        (1, true) => (0u8, n.word_id + nsys as u32),
                        (l, _) => (l, n.word_id),
                    };
                    (n.start_node, n.start_word, n.end, wid, n.left, n.right, n.cost)
                };
                let mut ca: Vec<_> = a.nodes.iter().map(|n| norm(n, true)).collect();
                let mut cb: Vec<_> = b.nodes.iter().map(|n| norm(n, false)).collect();
                ca.sort();
                cb.sort();
                if a.nodes.iter().any(|n| n.lex == 1) {
                    st.count("sentences_with_user_candidates");
                }
                if ca != cb {
                    st.violation(Finding {
                        class: "user-candidates-differ-from-extended-system".into(),
                        what: format!("candidate set with the user lexicon differs from the system lexicon extended by the same rows [{} {:?} {:?}]", u.name, opts, s),
                        replay: json!({"kind": "tokenize", "dictionary": u.describe(), "sentence": s, "ignore_space": opts.ignore_space, "max_grouping_len": opts.mgl,
                            "with_user": format!("{:?}", ca), "extended_system": format!("{:?}", cb)}),
                    });
                    continue;
                }
                if a.eos.map(|e| e.2) != b.eos.map(|e| e.2) {
                    st.violation(Finding {
                        class: "user-optimal-cost-differs".into(),
                        what: format!("optimal cost {:?} with the user lexicon vs {:?} with the extended system lexicon [{} {:?} {:?}]", a.eos.map(|e| e.2), b.eos.map(|e| e.2), u.name, opts, s),
                        replay: json!({"kind": "tokenize", "dictionary": u.describe(), "sentence": s, "ignore_space": opts.ignore_space, "max_grouping_len": opts.mgl}),
                    });
                    continue;
                }
                // reported tokens: user words are reported as user tokens with the user row's data
                for tk in &a.tokens {
                    if tk.lex == 1 {
                        st.count("user_tokens_reported");
                        let ok = rd
                            .user
                            .as_ref()
                            // word ids count the rows that became words (rows with an empty surface are skipped)
                            .and_then(|v| v.iter().filter(|r| !r.surface.is_empty()).nth(tk.word_id as usize))
                            .map_or(false, |r| r.surface == tk.surface && r.feature == tk.feature && r.cost == tk.cost && r.left == tk.left && r.right == tk.right);
                        if !ok {
                            st.violation(Finding {
                                class: "user-token-fields-wrong".into(),
                                what: format!("token {:?} reported as user-lexicon word {} does not carry that row's data [{} {:?}]", tk.surface, tk.word_id, u.name, s),
                                replay: json!({"kind": "tokenize", "dictionary": u.describe(), "sentence": s, "token": tk.to_json()}),
                            });
                        }
                    } else if tk.lex == 0 {
                        st.count("system_tokens_reported_with_user_lexicon_loaded");
                    }
                }
                // same path modulo naming (tie-breaking is positional, so identical here:
                // user words precede system words in both insertion orders only if ... not
                // guaranteed) -> compare costs only, which the statement requires.
            }
        }
    });
    st.merge(res);
}

/// (b) load / replace / clear histories.
fn histories(tier: Tier, st: &mut Stats) {
    let fams = family_d(tier);
    let depth = tier.pick(3, 5);
    let sent_len = tier.pick(4, 5);
    let mut tasks = vec![];
    for (fi, f) in fams.iter().enumerate() {
        let ops = vec![Op::LoadUser(0), Op::LoadUser(1), Op::Clear, Op::Map(0), Op::Map(1)];
        for h in all_seqs(ops.len(), depth) {
            let h: Vec<Op> = h.into_iter().map(|i| ops[i].clone()).collect();
            // maps may occur anywhere (the user lexicon must follow every later mapping)
            let maps = h.iter().filter(|o| matches!(o, Op::Map(_))).count();
            if maps > 2 {
                continue;
            }
            tasks.push((fi, h));
            let _ = f;
        }
    }
    let res = par_explore(tasks.len(), |ti, st| {
        let (fi, h) = &tasks[ti];
        let f = &fams[*fi];
        let sentences = all_strings(&f.alphabet, sent_len);
        st.states += 1;
        st.transitions += 1;
        let mut rs = RefState::new(&f.base);
        for op in h {
            rs.apply(f, op).unwrap();
        }
        // canonical history reaching the same reference state
        // canonical history: all mappings first (in order), then the last loaded user lexicon
        let mut canon: Vec<Op> = h.iter().filter(|o| matches!(o, Op::Map(_))).cloned().collect();
        if let Some(i) = rs.user {
            canon.push(Op::LoadUser(i));
        }
        let d = match exec_history(f, h) {
            Ok(d) => d,
            Err((k, _)) => {
                st.violation(Finding {
                    class: "valid-user-op-rejected".into(),
                    what: format!("op {k} of a valid load/replace/clear history failed [{} {:?}]", f.name, h),
                    replay: json!({"kind": "dict_history", "case": f.describe(h)}),
                });
                return;
            }
        };
        let c = exec_history(f, &canon).unwrap_or_else(|_| std::process::exit(2));
        let od = observe(d, &sentences);
        let oc = observe(c, &sentences);
        st.outcome(&(fi, &od));
        if h.iter().filter(|o| matches!(o, Op::LoadUser(_))).count() >= 2 {
            st.count("histories_replacing_a_user_lexicon");
        }
        if h.iter().any(|o| matches!(o, Op::Clear)) && h.iter().position(|o| matches!(o, Op::LoadUser(_))) < h.iter().rposition(|o| matches!(o, Op::Clear)) {
            st.count("histories_clearing_a_loaded_user_lexicon");
        }
        if h.iter().position(|o| matches!(o, Op::LoadUser(_))) < h.iter().rposition(|o| matches!(o, Op::Map(_))) && h.iter().any(|o| matches!(o, Op::LoadUser(_))) {
            st.count("histories_mapping_after_a_user_lexicon_was_loaded");
        }
        if od != oc {
            let idx = od.tokens.iter().zip(&oc.tokens).position(|(x, y)| x != y);
            st.violation(Finding {
                class: "user-history-dependence".into(),
                what: format!(
                    "after {:?} the dictionary behaves differently from {:?} (first differing sentence {:?}) [{}]",
                    h,
                    canon,
                    idx.map(|i| sentences[i % sentences.len()].clone()),
                    f.name
                ),
                replay: json!({"kind": "dict_history", "case": f.describe(h), "canonical": f.describe(&canon)}),
            });
        }
        if st.states % 97 == 0 {
            st.sample(json!({"family": f.name, "history": format!("{h:?}"), "canonical": format!("{canon:?}")}));
        }
    });
    st.merge(res);
}

/// (c) validation of ids and of malformed CSV, on unmapped and mapped dictionaries.
fn validation(tier: Tier, st: &mut Stats) {
    let fams = family_d(tier);
    let malformed: Vec<&str> = vec![
        "a,1,1",          // too few columns
        "a,1,1,5",        // four columns only
        "a,x,1,5,f",      // non-numeric id
        "a,1,-1,5,f",     // negative id
        "a,1,1,99999,f",  // cost out of range
        "a,65536,1,5,f",  // id beyond u16
        "a,1,1,5,f\nb,1", // second row short
        "\"a,1,1,5,f",    // unterminated quote
    ];
    for f in &fams {
        for ctx in [vec![], vec![Op::Map(0)], vec![Op::Map(0), Op::Map(1)], vec![Op::WriteRead], vec![Op::Map(1), Op::WriteRead]] {
            let n_l = f.base.nl as u32;
            let n_r = f.base.nr as u32;
            let mut ids: Vec<(u32, u32)> = vec![];
            for l in [0, n_l - 1, n_l, n_l + 1, 65535] {
                for r in [0, n_r - 1, n_r, n_r + 1, 65535] {
                    ids.push((l, r));
                }
            }
            for (l, r) in ids {
                st.states += 1;
                st.transitions += 1;
                let csv = format!("ab,{l},{r},7,user-probe\nc,1,1,3,user-ok\n");
                let expect_ok = l < n_l && r < n_r;
                let d = exec_history(f, &ctx).unwrap_or_else(|_| std::process::exit(2));
                let res = guard(move || d.reset_user_lexicon_from_reader(Some(csv.as_bytes())));
                let class = match &res {
                    Err(p) => format!("Panic@{}", panic_site(p)),
                    Ok(Err(_)) => "Err".into(),
                    Ok(Ok(_)) => "Ok".into(),
                };
                st.outcome(&(&f.name, ctx.len(), l, r, &class));
                if expect_ok {
                    st.count("user_rows_with_ids_in_range");
                } else {
                    st.count("user_rows_with_ids_out_of_range");
                }
                let good = if expect_ok { class == "Ok" } else { class == "Err" };
                if !good {
                    st.violation(Finding {
                        class: if class.starts_with("Panic") { format!("user-id-validation-{class}") } else if expect_ok { "valid-user-lexicon-rejected".into() } else { "out-of-range-user-id-accepted".into() },
                        what: format!("user row with ids ({l},{r}) on a connector of {n_l}x{n_r} ids after {:?}: expected {}, got {class} [{}]", ctx, if expect_ok { "Ok" } else { "Err" }, f.name),
                        replay: json!({"kind": "user_lexicon", "case": f.describe(&ctx), "csv": format!("ab,{l},{r},7,user-probe\nc,1,1,3,user-ok\n")}),
                    });
                    continue;
                }
                if let Ok(Ok(d)) = res {
                    // accepted => every sentence tokenizes
                    let sentences = all_strings(&f.alphabet, 3);
                    let o = observe(d, &sentences);
                    if let Some(Err(p)) = o.tokens.iter().find(|t| t.is_err()) {
                        st.violation(Finding {
                            class: "accepted-user-lexicon-panics-later".into(),
                            what: format!("user lexicon accepted but tokenization panics: {p} [{}]", f.name),
                            replay: json!({"kind": "user_lexicon", "case": f.describe(&ctx), "ids": [l, r]}),
                        });
                    }
                }
            }
            // a CSV that yields no entry, loaded over an existing user lexicon: an error, or a
            // dictionary without user words -- never the previous user lexicon still in effect
            if ctx.len() <= 1 {
                for ui in 0..f.users.len() {
                    for empty in ["", "\n", "\n\n", ",1,1,0,x\n", "\"\",1,1,0,x\n\n"] {
                        st.states += 1;
                        st.transitions += 1;
                        st.count("entry_less_user_csv_over_a_loaded_one");
                        let mut h = ctx.clone();
                        h.push(Op::LoadUser(ui));
                        let d = exec_history(f, &h).unwrap_or_else(|_| std::process::exit(2));
                        let txt = empty.to_string();
                        let res = guard(move || d.reset_user_lexicon_from_reader(Some(txt.as_bytes())));
                        let sentences = all_strings(&f.alphabet, 3);
                        let bad = match res {
                            Err(p) => Some(format!("panic {p}")),
                            Ok(Err(_)) => None,
                            Ok(Ok(d2)) => {
                                let mut hc = h.clone();
                                hc.push(Op::Clear);
                                let cleared = exec_history(f, &hc).unwrap_or_else(|_| std::process::exit(2));
                                let (o1, o2) = (observe(d2, &sentences), observe(cleared, &sentences));
                                if format!("{:?}", o1.tokens) == format!("{:?}", o2.tokens) { None } else { Some("accepted, and the previous user lexicon is still in effect (tokens differ from the cleared dictionary)".to_string()) }
                            }
                        };
                        if let Some(why) = bad {
                            st.violation(Finding {
                                class: "entry-less-user-csv-keeps-previous-lexicon".into(),
                                what: format!("user CSV {:?} loaded after {:?}: {why} [{}]", empty, h, f.name),
                                replay: json!({"kind": "user_lexicon", "case": f.describe(&h), "csv": empty}),
                            });
                        }
                    }
                }
            }
            for m in &malformed {
                st.states += 1;
                st.transitions += 1;
                st.count("malformed_user_csvs");
                let d = exec_history(f, &ctx).unwrap_or_else(|_| std::process::exit(2));
                let txt = m.to_string();
                let res = guard(move || d.reset_user_lexicon_from_reader(Some(txt.as_bytes())));
                let class = match &res {
                    Err(p) => format!("Panic@{}", panic_site(p)),
                    Ok(Err(_)) => "Err".into(),
                    Ok(Ok(_)) => "Ok".into(),
                };
                if class != "Err" {
                    st.violation(Finding {
                        class: format!("malformed-user-csv-{class}"),
                        what: format!("malformed user CSV {:?}: expected Err, got {class} [{} after {:?}]", m, f.name, ctx),
                        replay: json!({"kind": "user_lexicon", "case": f.describe(&ctx), "csv": m}),
                    });
                }
            }
        }
    }
}

pub fn run(tier: Tier) -> i32 {
    let mut rep = Report::new("C08", tier);
    let mut st = Stats::default();
    equivalence(tier, &mut st);
    histories(tier, &mut st);
    validation(tier, &mut st);
    rep.rule = "(a) state = (lexicon/cost dictionary with a user lexicon from a menu of 3, option setting, sentence); the lattice candidates and the optimal cost must equal those of the dictionary whose system lexicon is extended by the same rows; (b) state = history over {load U1, load U2, clear} (optionally on a mapped dictionary): full observation table must equal that of the canonical history (fresh + last loaded / nothing); (c) an entry-less CSV over a loaded user lexicon gives Err or a dictionary without user words; every user row with ids in {0, n-1, n, n+1, 65535}^2 and 8 malformed CSVs in 5 contexts (unmapped, mapped, mapped twice, reloaded): Ok iff in range, else Err, never a panic; distinct = distinct observation tables / outcome classes".into();
    rep.bounds = json!({"sentence_len": tier.pick(4, 6), "history_depth": tier.pick(3, 5)});
    rep.finish(
        st,
        &[
            "sentences_with_user_candidates",
            "user_tokens_reported",
            "system_tokens_reported_with_user_lexicon_loaded",
            "histories_replacing_a_user_lexicon",
            "histories_clearing_a_loaded_user_lexicon",
            "histories_mapping_after_a_user_lexicon_was_loaded",
            "user_rows_with_ids_in_range",
            "user_rows_with_ids_out_of_range",
            "malformed_user_csvs",
            "user_lexicons_longer_than_8_KiB",
        ],
    )
}
