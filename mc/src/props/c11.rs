//! C11: lexicon CSV rows are preserved verbatim as words (E4/E1: all small CSV files).
use serde_json::json;
use vibrato::dictionary::{LexType, WordIdx};
use vibrato::{SystemDictionaryBuilder, Tokenizer};

use crate::common::*;
use crate::real::*;

#[derive(Clone, Debug)]
struct RowSpec {
    /// raw first field as written in the file
    raw_surface: &'static str,
    /// its CSV-unquoted value
    surface: &'static str,
    left_raw: &'static str,
    left: u16,
    right: u16,
    cost: i16,
    /// raw remainder after the fourth comma
    tail: &'static str,
    term: &'static str,
}

const SURFACES: [(&str, &str); 8] = [
    ("a", "a"),
    ("a b", "a b"),
    ("\"a,b\"", "a,b"),
    ("\"a\"\"b\"", "a\"b"),
    ("\"a\"", "a"),
    ("あ", "あ"),
    ("", ""),
    ("ab", "ab"),
];
const NUMS: [(&str, u16, u16, i16); 5] = [("0", 0, 1, 0), ("1", 1, 0, -1), ("1", 1, 1, 32767), ("0", 0, 0, -32768), ("\"1\"", 1, 1, 7)];
const TAILS: [&str; 10] = ["f", "f,", "\"x,y\",z", "f\"q", "", ",", "f,g", "*", "\"l1\nl2\",w", " sp ,, "];
const TERMS: [&str; 5] = ["\n", "\r\n", "", "\n\n", "\r"];

fn rows(tier: Tier, three: bool) -> Vec<RowSpec> {
    let mut out = vec![];
    let (ns, nn, nt, nm) = if three { (5, 2, 4, 5) } else { tier.pick((7, 4, 6, 5), (8, 5, 10, 5)) };
    for (rs, s) in SURFACES.iter().take(ns) {
        for (lr, l, r, c) in NUMS.iter().take(nn) {
            for t in TAILS.iter().take(nt) {
                for tm in TERMS.iter().take(nm) {
                    out.push(RowSpec {
                        raw_surface: rs,
                        surface: s,
                        left_raw: lr,
                        left: *l,
                        right: *r,
                        cost: *c,
                        tail: t,
                        term: tm,
                    });
                }
            }
        }
    }
    out
}

fn render(rows: &[&RowSpec], lead: &str) -> Option<String> {
    let mut s = String::from(lead);
    for (i, r) in rows.iter().enumerate() {
        // a row without terminator is only possible at the end of the file
        if r.term.is_empty() && i + 1 != rows.len() {
            return None;
        }
        s.push_str(&format!("{},{},{},{},{}{}", r.raw_surface, r.left_raw, r.right, r.cost, r.tail, r.term));
    }
    Some(s)
}

const MATRIX: &str = "2 2\n0 0 0\n0 1 1\n1 0 2\n1 1 3\n";
const CHARDEF: &str = "DEFAULT 0 1 0\n";
const UNK: &str = "DEFAULT,0,0,10000,unk\n";

fn check_file(rows: &[&RowSpec], lead: &str, st: &mut Stats) {
    let Some(text) = render(rows, lead) else { return };
    st.states += 1;
    st.transitions += 1;
    let case = || json!({"kind": "lex_csv", "lex.csv": text, "matrix.def": MATRIX, "char.def": CHARDEF, "unk.def": UNK});
    // a U+FEFF at the very beginning of the file is a byte-order mark to the CSV reader
    // (csv-core strips it), not part of the first field; anywhere else it is an ordinary character
    let mut adjusted: Vec<RowSpec> = rows.iter().map(|r| (*r).clone()).collect();
    if text.starts_with('\u{FEFF}') {
        if let Some(rest) = adjusted[0].surface.strip_prefix('\u{FEFF}') {
            adjusted[0].surface = rest;
            st.count("files_starting_with_a_byte_order_mark");
        }
    }
    let rows: Vec<&RowSpec> = adjusted.iter().collect();
    let rows = &rows[..];
    let expected: Vec<&&RowSpec> = rows.iter().filter(|r| !r.surface.is_empty()).collect();
    if expected.is_empty() {
        // a lexicon without any word is rejected by the trie builder; C11 is about the words
        // of the rows, so such files are outside it (they are swept by C10)
        st.count("files_with_no_word_at_all (not judged)");
        return;
    }
    if expected.len() < rows.len() {
        st.count("files_with_empty_surface_row");
    }
    if rows.last().map_or(false, |r| r.term.is_empty()) {
        st.count("files_without_final_newline");
    }
    if rows.iter().any(|r| r.term == "\n\n") || !lead.is_empty() {
        st.count("files_with_blank_lines");
    }
    if rows.iter().any(|r| r.term == "\r\n") {
        st.count("files_with_crlf");
    }
    let built = guard(|| SystemDictionaryBuilder::from_readers(text.as_bytes(), MATRIX.as_bytes(), CHARDEF.as_bytes(), UNK.as_bytes()));
    let d = match built {
        Err(p) => {
            st.violation(Finding {
                class: format!("csv-Panic@{}", panic_site(&p)),
                what: format!("well-formed lexicon CSV {:?} makes the builder panic: {p}", text),
                replay: case(),
            });
            return;
        }
        Ok(Err(e)) => {
            st.violation(Finding {
                class: "well-formed-csv-rejected".into(),
                what: format!("well-formed lexicon CSV {:?} rejected: {e}", text),
                replay: case(),
            });
            return;
        }
        Ok(Ok(d)) => d,
    };
    // a neighbour dictionary with one short word, built and used in the same thread after this one
    // was built and before it is queried: the dictionary under test must not notice
    if let Ok(Ok(nd)) = guard(|| SystemDictionaryBuilder::from_readers("x,0,0,1,neighbour\n".as_bytes(), MATRIX.as_bytes(), CHARDEF.as_bytes(), UNK.as_bytes())) {
        let nt = Tokenizer::new(nd);
        let _ = run_fresh(&nt, "x", false);
        st.count("neighbour_dictionaries_built_before_the_lookups");
    }
    // features verbatim, in row order
    for (i, r) in expected.iter().enumerate() {
        let got = guard(|| d.word_feature(WordIdx { lex_type: LexType::System, word_id: i as u32 }).to_string());
        match got {
            Ok(f) if f == r.tail => {}
            other => {
                st.violation(Finding {
                    class: "feature-not-verbatim".into(),
                    what: format!("word {i} of {:?}: feature {:?}, expected the raw remainder {:?}", text, other, r.tail),
                    replay: case(),
                });
                return;
            }
        }
    }
    // no extra word
    if guard(|| d.word_feature(WordIdx { lex_type: LexType::System, word_id: expected.len() as u32 }).to_string()).is_ok() {
        st.violation(Finding {
            class: "extra-word".into(),
            what: format!("{:?} yields more than the {} expected words", text, expected.len()),
            replay: case(),
        });
        return;
    }
    st.outcome(&expected.iter().map(|r| (r.surface, r.left, r.right, r.cost, r.tail)).collect::<Vec<_>>());
    // every surface is found with exactly its homograph multiset
    let t = Tokenizer::new(d);
    let mut surfaces: Vec<&str> = expected.iter().map(|r| r.surface).collect();
    surfaces.sort();
    surfaces.dedup();
    if surfaces.len() < expected.len() {
        st.count("files_with_homographs");
    }
    for s in surfaces {
        let n = s.chars().count();
        let run = match run_fresh(&t, s, true) {
            Ok(r) => r,
            Err(p) => {
                st.violation(Finding {
                    class: format!("tokenize-Panic@{}", panic_site(&p)),
                    what: format!("tokenizing surface {:?} of {:?} panicked: {p}", s, text),
                    replay: case(),
                });
                return;
            }
        };
        let mut got: Vec<(u32, u16, u16, i16)> = run.nodes.iter().filter(|x| x.lex == 0 && x.start_word == 0 && x.end == n).map(|x| (x.word_id, x.left, x.right, x.cost)).collect();
        got.sort();
        let mut exp: Vec<(u32, u16, u16, i16)> = expected.iter().enumerate().filter(|(_, r)| r.surface == s).map(|(i, r)| (i as u32, r.left, r.right, r.cost)).collect();
        exp.sort();
        if got != exp {
            st.violation(Finding {
                class: "homograph-set-differs".into(),
                what: format!("surface {:?} of {:?}: lexicon candidates (word id, left, right, cost) {:?}, expected {:?}", s, text, got, exp),
                replay: case(),
            });
            return;
        }
        st.count("surfaces_looked_up");
    }
}

pub fn run(tier: Tier) -> i32 {
    let mut rep = Report::new("C11", tier);
    let r2 = rows(tier, false);
    let r3 = rows(tier, true);
    // tasks: first row index (two-row files), plus three-row files keyed by first row
    let n2 = r2.len();
    let n3 = r3.len();
    let st = par_explore(n2 + n3, |ti, st| {
        if ti < n2 {
            let a = &r2[ti];
            check_file(&[a], "", st);
            check_file(&[a], "\n", st);
            for b in &r2 {
                check_file(&[a, b], "", st);
            }
            if ti % 97 == 0 {
                st.sample(json!({"file": render(&[a, &r2[(ti * 7 + 3) % n2]], "")}));
            }
        } else if tier == Tier::Thorough {
            let a = &r3[ti - n2];
            for b in &r3 {
                for c in &r3 {
                    check_file(&[a, b, c], "", st);
                }
            }
        } else {
            // quick: a diagonal slice of the three-row files
            let i = ti - n2;
            let a = &r3[i];
            for (j, b) in r3.iter().enumerate() {
                let c = &r3[(i + 2 * j + 1) % n3];
                check_file(&[a, b, c], "", st);
            }
        }
    });
    // surface-order sweep: every sequence of up to 6/7 rows over three surfaces (homographs
    // adjacent, separated, interleaved), each row with its own ids / cost / feature
    let mut st = st;
    {
        let surf = ["a", "ab", "b"];
        let seqs = all_seqs(surf.len(), tier.pick(6, 7));
        const CH: usize = 64;
        let res = par_explore(seqs.len().div_ceil(CH), |ti, st| {
            for seq in &seqs[ti * CH..((ti + 1) * CH).min(seqs.len())] {
                if seq.is_empty() {
                    continue;
                }
                let feats: Vec<String> = (0..seq.len()).map(|i| format!("row{i},f{}", i % 3)).collect();
                let rows: Vec<RowSpec> = seq
                    .iter()
                    .enumerate()
                    .map(|(i, &si)| RowSpec {
                        raw_surface: surf[si],
                        surface: surf[si],
                        left_raw: if i % 2 == 0 { "0" } else { "1" },
                        left: (i % 2) as u16,
                        right: ((i / 2) % 2) as u16,
                        cost: (i as i16) * 3 - 4,
                        tail: Box::leak(feats[i].clone().into_boxed_str()),
                        term: "\n",
                    })
                    .collect();
                let refs: Vec<&RowSpec> = rows.iter().collect();
                check_file(&refs, "", st);
                st.count("surface_order_files");
            }
        });
        st.merge(res);
        // N rows of one surface (and one other word in between), N around 16 and 256
        for n in tier.pick(vec![17usize, 257], vec![16, 17, 255, 256, 257, 300]) {
            let feats: Vec<String> = (0..=n).map(|i| format!("hom{i},g")).collect();
            let rows: Vec<RowSpec> = (0..=n)
                .map(|i| RowSpec {
                    raw_surface: if i == n / 2 { "b" } else { "a" },
                    surface: if i == n / 2 { "b" } else { "a" },
                    left_raw: if i % 2 == 0 { "0" } else { "1" },
                    left: (i % 2) as u16,
                    right: ((i / 2) % 2) as u16,
                    cost: (i % 100) as i16,
                    tail: Box::leak(feats[i].clone().into_boxed_str()),
                    term: "\n",
                })
                .collect();
            let refs: Vec<&RowSpec> = rows.iter().collect();
            check_file(&refs, "", &mut st);
            st.count("files_with_many_homographs");
        }
    }
    // text-level corners: surfaces and feature tails with characters that mean something to SOME
    // reader of the tool chain (comment marks, byte-order mark, half/full-width forms, leading and
    // trailing blanks, TAB, NBSP, U+3000, separators of other files), alone, before and after an
    // ordinary row, with every terminator
    {
        const SPECIAL_SURFACES: [(&str, &str); 21] = [
            // a backslash is an ordinary character, inside and outside quotes
            ("a\\b", "a\\b"), ("\"a\\b\"", "a\\b"), ("\"x\\,y\"", "x\\,y"), ("\"1,2\\\"", "1,2\\"), ("\\", "\\"),
            ("#x", "#x"), ("#", "#"), ("\u{FEFF}x", "\u{FEFF}x"), ("\u{FF71}x", "\u{FF71}x"), ("\u{FF21}", "\u{FF21}"), ("\u{FFFE}", "\u{FFFE}"),
            (" x", " x"), ("x ", "x "), ("\tx", "\tx"), ("x\u{3000}", "x\u{3000}"), ("\"#q\"", "#q"), ("//x", "//x"), ("[x]", "[x]"),
            ("*", "*"), ("$1", "$1"), ("\u{00A0}", "\u{00A0}"),
        ];
        const SPECIAL_TAILS: [&str; 18] = [
            "f\\n", "\"u,v\\\"", "\"u\\\"\"v\"", "C:\\new\\notes",
            "f ", "f\t", "f\u{3000}", " f", "f,g ", "f,\u{3000}", "\"q\" ", "#f", "f\u{00A0}", "\"l1\nl2\"", "\"l1\r\nl2\",w", "\"l1\rl2\"", "\u{FEFF}", "f\u{0085}",
        ];
        let plain = RowSpec { raw_surface: "a", surface: "a", left_raw: "0", left: 0, right: 1, cost: 3, tail: "plain", term: "\n" };
        let mut specials: Vec<RowSpec> = vec![];
        for (rs, sf) in SPECIAL_SURFACES {
            for tm in TERMS {
                specials.push(RowSpec { raw_surface: rs, surface: sf, left_raw: "1", left: 1, right: 0, cost: -2, tail: "f,g", term: tm });
            }
        }
        for t in SPECIAL_TAILS {
            for tm in TERMS {
                specials.push(RowSpec { raw_surface: "ab", surface: "ab", left_raw: "1", left: 1, right: 1, cost: 9, tail: t, term: tm });
            }
        }
        for sp in &specials {
            st.count("files_with_special_characters");
            check_file(&[sp], "", &mut st);
            check_file(&[&plain, sp], "", &mut st);
            check_file(&[sp, &plain], "", &mut st);
            check_file(&[sp, sp], "", &mut st);
        }
    }
    rep.rule = "state = lexicon CSV file of 1-3 rows, each row the product of a raw surface field (plain, with space, quoted with comma, quoted with doubled quote, gratuitously quoted, multi-byte, empty), an id/cost combination (incl. extremes and a quoted number), a raw feature tail (plain, several cells, quoted cell with comma, stray quote, empty, '*', quoted cell with a line break, spaces and empty cells) and a row terminator (LF, CRLF, none at EOF, LF LF), optionally after a leading blank line; plus every sequence of up to 6/7 rows over the surfaces {a, ab, b} (homographs adjacent, separated, interleaved); plus 16 special surfaces ('#', byte-order mark, half/full-width forms, leading/trailing blanks, TAB, U+3000, NBSP, '*', '$1', '//', '[x]') and 14 special feature tails (trailing blank / TAB / U+3000 / NBSP / NEL, quoted line breaks, '#f') alone, before, after an ordinary row and doubled, with every terminator; built by the real builder; oracle: one word per non-empty-surface row in order, feature == raw tail byte for byte, lexicon candidates of each surface == its homograph multiset; the expected values come from the generating structure, no parser involved; distinct = distinct expected word lists".into();
    rep.bounds = json!({"row_menu_2": n2, "row_menu_3": n3, "three_row_files": tier.pick("diagonal slice", "all")});
    if tier == Tier::Quick {
        rep.cap_note = Some("three-row files: a deterministic diagonal slice in the quick tier; one- and two-row files complete".into());
    }
    rep.finish(
        st,
        &[
            "files_with_empty_surface_row",
            "files_without_final_newline",
            "files_with_blank_lines",
            "files_with_crlf",
            "files_with_homographs",
            "surfaces_looked_up",
            "surface_order_files",
            "files_with_many_homographs",
            "files_with_special_characters",
        ],
    )
}
