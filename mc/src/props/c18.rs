//! C18: feature templates expand per MeCab semantics and define connection classes.
//! Function level here (template sets x feature rows, string-level reference expander);
//! the dictionary level (connection classes of trained models) lives in `train.rs`.
use std::collections::HashMap;

use serde_json::json;
use vibrato::trainer::verif::{expand_templates, Kind};

use crate::common::*;

/// Reference expander working on strings. `letter` is F, L or R.
pub fn expand(template: &str, letter: char, allow_t: bool, features: &[String], cate: u32) -> Option<String> {
    let b: Vec<char> = template.chars().collect();
    let mut out = String::new();
    let mut i = 0;
    while i < b.len() {
        if b[i] == '%' {
            // %t
            if allow_t && i + 1 < b.len() && b[i + 1] == 't' {
                out.push_str(&cate.to_string());
                i += 2;
                continue;
            }
            // %X[n] or %X?[n]
            if i + 1 < b.len() && b[i + 1] == letter {
                let mut j = i + 2;
                let optional = j < b.len() && b[j] == '?';
                if optional {
                    j += 1;
                }
                if j < b.len() && b[j] == '[' {
                    let mut k = j + 1;
                    let mut digits = String::new();
                    while k < b.len() && b[k].is_ascii_digit() {
                        digits.push(b[k]);
                        k += 1;
                    }
                    if !digits.is_empty() && k < b.len() && b[k] == ']' {
                        let n: usize = digits.parse().unwrap();
                        let v = features.get(n).map(|s| s.as_str()).unwrap_or("*");
                        if optional && v == "*" {
                            return None;
                        }
                        out.push_str(v);
                        i = k + 1;
                        continue;
                    }
                }
            }
        }
        out.push(b[i]);
        i += 1;
    }
    Some(out)
}

/// Templates that contain placeholder syntax of ANOTHER kind (which stays literal text) next
/// to their own references.
fn corner_menu(letter: char, with_t: bool) -> Vec<String> {
    let l = letter;
    let other = if l == 'L' { 'R' } else { 'L' };
    let mut v = vec![
        format!("B%{other}[0]:%{l}[0]"),
        format!("%{l}[0],%{l}[1]"),
        format!("%F[0]|%{l}[1]").replace("%F", if l == 'F' { "%L" } else { "%F" }),
        format!("%{l}[1]%{l}[0]"),
        format!("x%{l}?[1]"),
    ];
    if with_t {
        v.push(format!("t:%{l}[1],%t"));
    } else {
        v.push(format!("B%t:%{l}[0]"));
    }
    v
}

fn menu(letter: char, with_t: bool) -> Vec<String> {
    let l = letter;
    let mut v = vec![
        format!("U:%{l}[0]"),
        format!("%{l}[1]"),
        format!("U:%{l}[0]/%{l}[1]").replace('/', "-"),
        format!("%{l}?[0]"),
        format!("X%{l}?[1]Y%{l}[0]"),
        format!("%{l}[2]"),
        format!("%{l}?[2]%{l}?[0]"),
        "const".to_string(),
        format!("%{l}[0]%{l}[0]"),
        format!("%{l}[10]"),
        format!("%{l}[0"), // malformed reference: stays literal
        format!("100%%{l}[1]"),
    ];
    if with_t {
        v[2] = "T:%t".to_string();
        v[10] = format!("%t/%{l}?[1]");
    }
    v
}

pub fn run(tier: Tier) -> i32 {
    let mut rep = Report::new("C18", tier);
    let alphabet = ["a", "b", "*", "p,q"];
    let rows: Vec<Vec<String>> = all_seqs(alphabet.len(), 3).into_iter().map(|s| s.into_iter().map(|i| alphabet[i].to_string()).collect()).collect();
    let mut inputs: Vec<(Vec<String>, u32)> = vec![];
    for r in &rows {
        for cate in [0u32, 3] {
            inputs.push((r.clone(), cate));
        }
    }
    // corner rows: feature values that look like placeholders (of this or another kind)
    let corner_alphabet = ["a", "%L[1]", "%F[1]", "%R[0]", "%t", "50%t"];
    let corner_rows: Vec<Vec<String>> = all_seqs(corner_alphabet.len(), 3).into_iter().map(|s| s.into_iter().map(|i| corner_alphabet[i].to_string()).collect()).collect();
    let mut corner_inputs: Vec<(Vec<String>, u32)> = vec![];
    for r in &corner_rows {
        corner_inputs.push((r.clone(), 3));
    }
    let plain_inputs = inputs;
    let kinds = [(Kind::Unigram, 'F', true), (Kind::Left, 'L', false), (Kind::Right, 'R', false)];
    let mut tasks = vec![];
    for (ki, (_, letter, with_t)) in kinds.iter().enumerate() {
        let m = menu(*letter, *with_t);
        let sets = all_seqs(m.len(), tier.pick(2, 3));
        for s in sets {
            if !s.is_empty() {
                tasks.push((ki, s, false));
            }
        }
        let m = corner_menu(*letter, *with_t);
        for s in all_seqs(m.len(), 2) {
            if !s.is_empty() {
                tasks.push((ki, s, true));
            }
        }
    }
    let mut st = par_explore(tasks.len(), |ti, st| {
        let (ki, set, corner) = &tasks[ti];
        let (kind, letter, with_t) = kinds[*ki];
        let m = if *corner { corner_menu(letter, with_t) } else { menu(letter, with_t) };
        let inputs = if *corner { &corner_inputs } else { &plain_inputs };
        if *corner {
            st.count("corner_template_sets (placeholder text in values / other-kind placeholders in templates)");
        }
        let templates: Vec<&String> = set.iter().map(|&i| &m[i]).collect();
        let mut def = String::new();
        for t in &templates {
            match kind {
                Kind::Unigram => def.push_str(&format!("UNIGRAM {t}\n")),
                Kind::Left => def.push_str(&format!("BIGRAM {t}/R:%R[0]\n")),
                Kind::Right => def.push_str(&format!("BIGRAM L:%L[0]/{t}\n")),
            }
        }
        st.states += 1;
        st.transitions += inputs.len() as u64;
        let case = || json!({"kind": "templates", "feature.def": def, "which": format!("{kind:?}")});
        let res = guard(|| expand_templates(&def, kind, &inputs));
        let (ids, table) = match res {
            Err(p) => {
                st.violation(Finding {
                    class: format!("template-Panic@{}", panic_site(&p)),
                    what: format!("template expansion panicked: {p} [{def:?}]"),
                    replay: case(),
                });
                return;
            }
            Ok(Err(e)) => {
                st.violation(Finding {
                    class: "valid-feature-def-rejected".into(),
                    what: format!("feature.def {def:?} rejected: {e}"),
                    replay: case(),
                });
                return;
            }
            Ok(Ok(x)) => x,
        };
        let table: HashMap<String, u32> = table.into_iter().collect();
        let mut seen: HashMap<String, u32> = HashMap::new();
        let mut ids_seen: HashMap<u32, String> = HashMap::new();
        for ((feats, cate), row_ids) in inputs.iter().zip(&ids) {
            if row_ids.len() != templates.len() {
                st.violation(Finding {
                    class: "template-count".into(),
                    what: format!("{} ids for {} templates", row_ids.len(), templates.len()),
                    replay: case(),
                });
                return;
            }
            for (t, id) in templates.iter().zip(row_ids) {
                st.count("expansions_checked");
                let want = expand(t, letter, with_t, feats, *cate);
                match (want, id) {
                    (None, None) => st.count("optional_reference_suppressed_the_feature"),
                    (Some(w), Some(id)) => {
                        // the interned table must map exactly this string to this id
                        if table.get(&w) != Some(id) {
                            st.violation(Finding {
                                class: "expansion-string-differs".into(),
                                what: format!("template {t:?} on {:?} (category {cate}): expected string {w:?} with id {id}, table has {:?}", feats, table.get(&w)),
                                replay: case(),
                            });
                            return;
                        }
                        if let Some(prev) = seen.get(&w) {
                            if prev != id {
                                st.violation(Finding {
                                    class: "equal-strings-different-ids".into(),
                                    what: format!("string {w:?} got ids {prev} and {id}"),
                                    replay: case(),
                                });
                                return;
                            }
                        }
                        if let Some(prev) = ids_seen.get(id) {
                            if *prev != w {
                                st.violation(Finding {
                                    class: "different-strings-equal-id".into(),
                                    what: format!("id {id} stands for {prev:?} and {w:?}"),
                                    replay: case(),
                                });
                                return;
                            }
                        }
                        seen.insert(w.clone(), *id);
                        ids_seen.insert(*id, w);
                    }
                    (w, id) => {
                        st.violation(Finding {
                            class: "optional-reference-semantics".into(),
                            what: format!("template {t:?} on {:?}: expected {:?}, got id {:?}", feats, w, id),
                            replay: case(),
                        });
                        return;
                    }
                }
            }
        }
        st.outcome(&(ki, seen.len(), format!("{:?}", ids.iter().take(12).collect::<Vec<_>>())));
        if ti % 61 == 0 {
            st.sample(json!({"feature.def": def, "rows": inputs.len(), "distinct_strings": seen.len()}));
        }
    });
    crate::props::train::dict_level_c18(tier, &mut st);
    rep.rule = format!("state = (template set of 1-{} templates from a 12-template menu per kind (unigram %F/%F?/%t, left %L/%L?, right %R/%R?), all feature rows of length 0-3 over {{a,b,*,\"p,q\"}} x category id in {{0,3}} fed in sequence to one extractor); every expansion must be the string the reference expander produces (absent feature -> '*', optional reference on '*'/absent -> no feature), equal strings share an id, different strings never do, and the interned table agrees; distinct = distinct id tables. Dictionary level: for every really trained model of the C14 family, words whose reference (rewritten) %R / %L expansion tuples coincide share a left / right id, and the tuple listed for that id in bigram.left / bigram.right equals the expansion position by position or is *", tier.pick(2, 3));
    rep.bounds = json!({"templates_per_set": tier.pick(2, 3), "menu": 12, "rows": plain_inputs.len(), "corner_rows": corner_inputs.len()});
    rep.finish(st, &["expansions_checked", "optional_reference_suppressed_the_feature", "models_trained", "rows_sharing_a_connection_class", "listed_context_features_compared"])
}
