//! C04: a worker's result depends only on (dictionary, options, sentence).
//! E2: all operation histories of one worker up to a depth; E3: all interleavings of 2-3 real
//! threads, each with its own worker over one shared tokenizer, up to a preemption bound.
use std::sync::Mutex;
use std::time::Duration;

use serde_json::json;
use vibrato::Tokenizer;

use crate::common::*;
use crate::real::*;
use crate::refmodel::*;
use crate::sched;
use crate::universe::*;

const SENTENCES: [&str; 6] = ["", "a", "abcab", "abc", "  ", "éa c"];

fn pick_universes(tier: Tier) -> Vec<Universe> {
    let ul = u_lex(tier);
    let mut out = vec![];
    for pat in [
        "lex/nested/matrix3x3s1",
        "lex/homographs/RawK3/user",
        "lex/nested/DualK9/user/mapped",
        "lex/space-comma/matrix3x3s2",
        "lex/homographs/RawK3x700/5x3",
        "lex/nested/DualK9x1/5x3/user",
        "lex/nested/RawK3x1/3x5",
    ] {
        if let Some(u) = ul.iter().find(|u| u.name == pat || u.name.starts_with(pat)) {
            out.push(u.clone());
        }
    }
    let uu = u_unk(tier);
    if let Some(u) = uu.iter().find(|u| u.name == "unk/chain/T=012/U#0/mult2/a+ab") {
        out.push(u.clone());
    }
    out
}

fn histories(tier: Tier, st: &mut Stats, universes: &[Universe]) {
    histories_with(tier, st, universes, false);
    histories_with(tier, st, universes, true);
}

/// `with_counter`: a smaller sentence menu plus the operation init_connid_counter(), which
/// has no effect on the sentence held by the worker nor on its result.
fn histories_with(tier: Tier, st: &mut Stats, universes: &[Universe], with_counter: bool) {
    let depth = if with_counter { tier.pick(5, 6) } else { tier.pick(5, 7) };
    let nsent = if with_counter { 4 } else { SENTENCES.len() };
    let nops = nsent + 1 + usize::from(with_counter); // reset(s) for each s, tokenize, [init counter]
    let seqs = all_seqs(nops, depth);
    let tasks: Vec<(usize, Opts)> = universes
        .iter()
        .enumerate()
        .flat_map(|(i, _)| {
            [
                Opts {
                    ignore_space: false,
                    mgl: 0,
                },
                Opts {
                    ignore_space: true,
                    mgl: 1,
                },
            ]
            .into_iter()
            .map(move |o| (i, o))
        })
        .collect();
    let res = par_explore(tasks.len(), |ti, st| {
        let (ui, opts) = tasks[ti];
        let u = &universes[ui];
        let (dict, _rd) = u.build().unwrap_or_else(|e| {
            println!("MACHINERY: universe {} does not build: {e}", u.name);
            std::process::exit(2);
        });
        let t = make_tokenizer(dict, opts).unwrap();
        // expected tokens per sentence: fresh worker of a FRESH tokenizer (so that state hidden
        // in the shared tokenizer cannot leak into the expectation)
        let mut fresh: Vec<Vec<Tok>> = vec![];
        for s in SENTENCES {
            let (fd, _) = u.build().unwrap();
            let ft = make_tokenizer(fd, opts).unwrap();
            match run_fresh(&ft, s, false) {
                Ok(r) => fresh.push(r.tokens),
                Err(p) => {
                    println!("MACHINERY: fresh tokenization panicked in C04 universe {}: {p}", u.name);
                    std::process::exit(2);
                }
            }
        }
        for h in &seqs {
            st.states += 1;
            if !h.is_empty() {
                st.transitions += 1;
            }
            // reference state machine
            let mut cur: usize = 0; // sentence index, "" initially
            let mut tokenized = false;
            let obs = guard(|| {
                let mut w = t.new_worker();
                for &op in h {
                    if op < nsent {
                        w.reset_sentence(SENTENCES[op]);
                    } else if op == nsent {
                        w.tokenize();
                    } else {
                        w.init_connid_counter();
                    }
                }
                read_tokens(&w)
            });
            let mut repeated_tokenize = false;
            let mut shorter_after_longer = false;
            let mut last_reset_len = 0usize;
            for &op in h {
                if op > nsent {
                    st.count("history_steps_init_connid_counter");
                    continue;
                }
                if op < nsent {
                    if tokenized && SENTENCES[op].len() < last_reset_len {
                        shorter_after_longer = true;
                    }
                    cur = op;
                    last_reset_len = SENTENCES[op].len();
                    tokenized = false;
                } else {
                    if tokenized {
                        repeated_tokenize = true;
                    }
                    tokenized = true;
                }
            }
            if repeated_tokenize {
                st.count("histories_with_repeated_tokenize");
            }
            if shorter_after_longer {
                st.count("histories_with_shorter_after_longer");
            }
            let expected: Vec<Tok> = if tokenized { fresh[cur].clone() } else { vec![] };
            let hist_json = || {
                json!(h
                    .iter()
                    .map(|&op| if op < nsent {
                        format!("reset_sentence({:?})", SENTENCES[op])
                    } else if op == nsent {
                        "tokenize()".to_string()
                    } else {
                        "init_connid_counter()".to_string()
                    })
                    .collect::<Vec<_>>())
            };
            match obs {
                Err(p) => st.violation(Finding {
                    class: format!("history-panic@{}", panic_site(&p)),
                    what: format!("worker history panicked: {p} [universe {} {:?} history {}]", u.name, opts, hist_json()),
                    replay: json!({"kind": "worker_history", "dictionary": u.describe(), "ignore_space": opts.ignore_space, "max_grouping_len": opts.mgl, "history": hist_json()}),
                }),
                Ok(got) => {
                    st.outcome(&(ui, opts, &got));
                    if h.len() == depth && st.states % 100_003 == 0 {
                        st.sample(json!({"universe": u.name, "history": hist_json(), "tokens": got.iter().map(|t| t.surface.clone()).collect::<Vec<_>>()}));
                    }
                    if got != expected {
                        let class = if got.len() > expected.len() && repeated_tokenize {
                            "history-repeated-tokenize-accumulates"
                        } else if got.len() != expected.len() {
                            "history-token-count-differs"
                        } else {
                            "history-tokens-differ"
                        };
                        st.violation(Finding {
                            class: class.into(),
                            what: format!(
                                "after history {} the worker reports {:?} but a fresh worker gives {:?} [universe {} {:?}]",
                                hist_json(),
                                got.iter().map(|t| t.surface.clone()).collect::<Vec<_>>(),
                                expected.iter().map(|t| t.surface.clone()).collect::<Vec<_>>(),
                                u.name,
                                opts
                            ),
                            replay: json!({"kind": "worker_history", "dictionary": u.describe(), "ignore_space": opts.ignore_space, "max_grouping_len": opts.mgl, "history": hist_json(),
                                "expected": expected.iter().map(|t| t.to_json()).collect::<Vec<_>>(), "observed": got.iter().map(|t| t.to_json()).collect::<Vec<_>>()}),
                        });
                    }
                }
            }
        }
    });
    st.merge(res);
}

type Obs = Vec<Result<Vec<Tok>, String>>;

fn thread_programs(nthreads: usize) -> Vec<Vec<&'static str>> {
    let all = vec![
        vec!["abcab", "ab"],   // longer, then shorter
        vec!["cabab", "c"],    // same length, different content
        vec!["a b", ""],       // space, then empty
    ];
    all.into_iter().take(nthreads).collect()
}

fn schedules(tier: Tier, st: &mut Stats, universes: &[Universe]) {
    let configs: Vec<(usize, usize, usize)> = match tier {
        // (universe index, threads, preemption bound)
        Tier::Quick => vec![(0, 2, 2), (1, 2, 1), (2, 3, 1), (4, 2, 2)],
        Tier::Thorough => vec![(0, 2, 3), (1, 2, 3), (2, 2, 3), (0, 3, 2), (4, 3, 2), (3, 2, 3), (5, 2, 3), (6, 3, 2)],
    };
    let cap: u64 = tier.pick(40_000, 2_000_000);
    let results = Mutex::new(Stats::default());
    std::thread::scope(|sc| {
        for &(ui, nthreads, bound) in &configs {
            let results = &results;
            let u = &universes[ui.min(universes.len() - 1)];
            sc.spawn(move || {
                let mut st = Stats::default();
                let opts = Opts {
                    ignore_space: true,
                    mgl: 0,
                };
                let (dict, _) = u.build().unwrap();
                // The compile-time question "is Tokenizer Send + Sync" is decided by the separate
                // mc-sendsync crate; here sharing is forced so that this harness builds either way.
                struct ForceShare(Tokenizer);
                unsafe impl Sync for ForceShare {}
                unsafe impl Send for ForceShare {}
                let shared = ForceShare(make_tokenizer(dict, opts).unwrap());
                let shared = &shared;
                let t: &Tokenizer = &shared.0;
                let progs = thread_programs(nthreads);
                // sequential expectation
                let expected: Vec<Obs> = progs
                    .iter()
                    .map(|p| {
                        p.iter()
                            .map(|s| {
                                let (fd, _) = u.build().unwrap();
                                let ft = make_tokenizer(fd, opts).unwrap();
                                run_fresh(&ft, s, false).map(|r| r.tokens)
                            })
                            .collect()
                    })
                    .collect();
                let observed: Mutex<Vec<Obs>> = Mutex::new(vec![vec![]; nthreads]);
                let bodies: Vec<_> = (0..nthreads)
                    .map(|_| {
                        |i: usize| {
                            let mut w = shared.0.new_worker();
                            let mut out: Obs = vec![];
                            for s in &progs[i] {
                                let r = guard(|| {
                                    w.reset_sentence(s);
                                    w.tokenize();
                                    read_tokens(&w)
                                });
                                out.push(r);
                            }
                            observed.lock().unwrap()[i] = out;
                        }
                    })
                    .collect();
                let timeout = Duration::from_millis(1500);
                for b in 0..=bound {
                    let mut n_this = 0u64;
                    let mut outcomes = std::collections::BTreeSet::new();
                    let mut on_exec = |ex: &sched::Execution| -> bool {
                        n_this += 1;
                        st.states += 1;
                        st.transitions += ex.steps;
                        st.add("context_switches_inside_api_calls", ex.switches_inside);
                        st.add("blocked_handoffs", ex.blocked_handoffs);
                        let obs = observed.lock().unwrap().clone();
                        outcomes.insert(format!("{:?}", obs));
                        st.outcome(&(ui, nthreads, format!("{:?}", obs)));
                        if ex.deadlock {
                            st.violation(Finding {
                                class: "schedule-deadlock".into(),
                                what: format!("{} threads over one tokenizer deadlock under schedule {:?} (universe {})", nthreads, ex.choices, u.name),
                                replay: json!({"kind": "schedule", "dictionary": u.describe(), "threads": progs, "schedule": ex.choices}),
                            });
                        } else if obs != expected {
                            let sched_json = json!({"choices": ex.choices, "points": ex.points.iter().map(|p| json!({"enabled": p.enabled, "chosen": p.chosen, "prev_site": p.site_of_prev})).collect::<Vec<_>>()});
                            // replay twice before trusting
                            let mut same = true;
                            for _ in 0..2 {
                                *observed.lock().unwrap() = vec![vec![]; nthreads];
                                match sched::run_schedule(&bodies, &ex.choices, timeout) {
                                    Ok(_) => {
                                        if *observed.lock().unwrap() != obs {
                                            same = false;
                                        }
                                    }
                                    Err(_) => same = false,
                                }
                            }
                            if !same {
                                st.count("schedule_replays_diverged");
                            }
                            st.violation(Finding {
                                class: "schedule-changes-result".into(),
                                what: format!(
                                    "{} threads over one tokenizer: under schedule {:?} the per-thread token sequences differ from the sequential ones (universe {}; replay deterministic: {same})",
                                    nthreads, ex.choices, u.name
                                ),
                                replay: json!({"kind": "schedule", "dictionary": u.describe(), "threads": progs, "schedule": sched_json,
                                    "expected": format!("{:?}", expected), "observed": format!("{:?}", obs)}),
                            });
                        }
                        *observed.lock().unwrap() = vec![vec![]; nthreads];
                        true
                    };
                    match sched::explore(&bodies, b, timeout, cap, &mut on_exec) {
                        Ok((n, capped)) => {
                            st.add(&format!("schedules_{}threads_bound{}", nthreads, b), n);
                            if capped {
                                st.notes.push(format!("schedule exploration capped at {cap} executions for universe {} threads {nthreads} bound {b}", u.name));
                                st.count("schedule_caps_hit");
                            }
                        }
                        Err(e) => {
                            println!("MACHINERY: scheduler lost control: {e}");
                            std::process::exit(2);
                        }
                    }
                    let _ = n_this;
                }
                st.sample(json!({"universe": u.name, "threads": progs, "max_preemptions": bound}));
                results.lock().unwrap().merge(st);
            });
        }
    });
    st.merge(results.into_inner().unwrap());
}

/// All ordered pairs (s1, s2) of short sentences on one worker: the result for s2 must be the
/// fresh-tokenizer result whatever s1 was (broad universes; complements the deep histories over
/// a few sentences).
fn ordered_pairs(tier: Tier, st: &mut Stats) {
    let mut us = u_lex(tier);
    let mut uu = u_unk(tier);
    uu.retain(|u| u.name.contains("/mult2/") && (u.name.contains("T=012") || u.name.contains("T=101") || u.name.contains("T=113")));
    us.extend(uu);
    if tier == Tier::Quick {
        us = us.into_iter().enumerate().filter(|(i, u)| i % 3 == 0 || u.name.contains("space-comma")).map(|x| x.1).collect();
    }
    let res = par_explore(us.len(), |ui, st| {
        let u = &us[ui];
        let max_len = if u.alphabet.len() <= 5 { 3 } else { 2 };
        let mut sentences = all_strings(&u.alphabet, max_len);
        // a few long sentences (lengths around 16 / 32 / 256) so that "long, then short" is covered
        if ui % 4 == 0 {
            for n in [17usize, 33, 255, 256, 257] {
                sentences.push("ab".repeat(n / 2 + 1)[..n].to_string());
                sentences.push(format!("{}c", "a".repeat(n - 1)));
            }
        }
        for &opts in &u.opts {
            let (d, _) = u.build().unwrap_or_else(|e| {
                println!("MACHINERY: {} does not build: {e}", u.name);
                std::process::exit(2)
            });
            let t = make_tokenizer(d, opts).unwrap();
            let fresh: Vec<Option<Vec<Tok>>> = sentences
                .iter()
                .map(|s| {
                    let (fd, _) = u.build().unwrap();
                    let ft = make_tokenizer(fd, opts).unwrap();
                    run_fresh(&ft, s, false).ok().map(|r| r.tokens)
                })
                .collect();
            // a worker of ANOTHER dictionary in the same thread (the twin with the last two
            // categories declared in the other order) handles s2 right before this worker does
            let nt = u.swapped_categories().and_then(|v| v.build().ok()).and_then(|(d, _)| make_tokenizer(d, opts).ok());
            let mut nw = nt.as_ref().map(|t| t.new_worker());
            for s1 in &sentences {
                let mut w = t.new_worker();
                if guard(|| {
                    w.reset_sentence(s1);
                    w.tokenize();
                })
                .is_err()
                {
                    continue; // K1-style dictionaries: fresh tokenization of s1 panics as well
                }
                for (j, s2) in sentences.iter().enumerate() {
                    let Some(want) = &fresh[j] else { continue };
                    st.states += 1;
                    st.transitions += 1;
                    // s1 is re-established before every s2 so that each pair starts from the same state
                    let got = guard(|| {
                        w.reset_sentence(s1);
                        w.tokenize();
                        if let Some(nw) = nw.as_mut() {
                            nw.reset_sentence(s2);
                            nw.tokenize();
                        }
                        w.reset_sentence(s2);
                        w.tokenize();
                        read_tokens(&w)
                    });
                    st.count("ordered_sentence_pairs_on_one_worker");
                    match got {
                        Ok(g) if &g == want => {}
                        other => {
                            st.violation(Finding {
                                class: if other.is_err() { "pair-panic".into() } else { "previous-sentence-changes-result".into() },
                                what: format!(
                                    "worker tokenized {:?} and then {:?}: got {:?}, a fresh worker gives {:?} [universe {} {:?}]",
                                    s1,
                                    s2,
                                    other.map(|g| g.iter().map(|t| (t.surface.clone(), t.total)).collect::<Vec<_>>()),
                                    want.iter().map(|t| (t.surface.clone(), t.total)).collect::<Vec<_>>(),
                                    u.name,
                                    opts
                                ),
                                replay: json!({"kind": "worker_history", "dictionary": u.describe(), "ignore_space": opts.ignore_space, "max_grouping_len": opts.mgl,
                                    "history": [format!("reset_sentence({s1:?})"), "tokenize()", format!("reset_sentence({s2:?})"), "tokenize()"]}),
                            });
                            break;
                        }
                    }
                }
            }
        }
    });
    st.merge(res);
}

/// Supplementary, NOT exhaustive: the same worker bodies free-running on real cores (no
/// scheduler), so that races between points that are not scheduling points (inside one
/// connection-cost lookup, say) have a chance to show. A mismatch is a genuine violation
/// (observed result differs from the sequential one) but is not replayable as a schedule.
fn free_running(tier: Tier, st: &mut Stats, universes: &[Universe]) {
    let rounds = tier.pick(1500, 20000);
    for ui in [1usize, 5, 6, 2] {
        let Some(u) = universes.get(ui) else { continue };
        let opts = Opts { ignore_space: false, mgl: 0 };
        struct ForceShare(Tokenizer);
        unsafe impl Sync for ForceShare {}
        unsafe impl Send for ForceShare {}
        let (d, _) = u.build().unwrap();
        let shared = ForceShare(make_tokenizer(d, opts).unwrap());
        let sents = ["a", "ab", "ba", "abc", "cab", "bca", "aab", "cc"];
        let expected: Vec<Option<Vec<Tok>>> = sents
            .iter()
            .map(|s| {
                let (fd, _) = u.build().unwrap();
                let ft = make_tokenizer(fd, opts).unwrap();
                run_fresh(&ft, s, false).ok().map(|r| r.tokens)
            })
            .collect();
        let bad = Mutex::new(None::<String>);
        let shared = &shared;
        let expected = &expected;
        let bad_ref = &bad;
        std::thread::scope(|sc| {
            for th in 0..4usize {
                sc.spawn(move || {
                    let mut w = shared.0.new_worker();
                    for r in 0..rounds {
                        for k in 0..sents.len() {
                            let i = (k + th + r) % sents.len();
                            let got = guard(|| {
                                w.reset_sentence(sents[i]);
                                w.tokenize();
                                read_tokens(&w)
                            })
                            .ok();
                            if got != expected[i] {
                                let mut b = bad_ref.lock().unwrap();
                                if b.is_none() {
                                    *b = Some(format!("thread {th} round {r}: {:?} gives {:?}, sequentially {:?}", sents[i], got.map(|g| g.iter().map(|t| (t.surface.clone(), t.total)).collect::<Vec<_>>()), expected[i].as_ref().map(|g| g.iter().map(|t| (t.surface.clone(), t.total)).collect::<Vec<_>>())));
                                }
                                return;
                            }
                        }
                        if r % 64 == 0 && bad_ref.lock().unwrap().is_some() {
                            return;
                        }
                    }
                });
            }
        });
        st.add("free_running_rounds (sampling, supplementary)", rounds as u64);
        if let Some(m) = bad.into_inner().unwrap() {
            st.violation(Finding {
                class: "free-running-threads-differ".into(),
                what: format!("4 free-running threads, own worker each, one shared tokenizer (universe {}): {m}", u.name),
                replay: json!({"kind": "free_running", "dictionary": u.describe(), "sentences": sents, "threads": 4, "note": "not replayable as a schedule: found by the supplementary free-running pass"}),
            });
        }
    }
}

pub fn run(tier: Tier) -> i32 {
    let mut rep = Report::new("C04", tier);
    let universes = pick_universes(tier);
    if universes.len() < 8 {
        println!("MACHINERY: C04 universes missing ({} found)", universes.len());
        return 2;
    }
    let mut st = Stats::default();
    // compile-time half: result of building the mc-sendsync crate (done by bin/check)
    st.states += 1;
    st.transitions += 1;
    match std::env::var("VMC_SENDSYNC").as_deref() {
        Ok("ok") => st.count("send_sync_assertions_compiled"),
        Ok(v) if v.starts_with("fail:") => st.violation(Finding {
            class: "tokenizer-not-send-sync".into(),
            what: format!("Tokenizer/Dictionary are no longer Send + Sync (or Worker no longer Send): the compile-time assertions in /verif/mc-sendsync fail, see {}", &v[5..]),
            replay: json!({"kind": "sendsync", "log": &v[5..]}),
        }),
        _ => {
            st.count("send_sync_assertions_not_run (direct vmc invocation)");
        }
    }
    histories(tier, &mut st, &universes);
    ordered_pairs(tier, &mut st);
    schedules(tier, &mut st, &universes);
    free_running(tier, &mut st, &universes);
    rep.rule = "E2: state = operation history of one worker over {reset_sentence(s) for 6 sentences, tokenize} and over {reset_sentence(s) for 4 sentences, tokenize, init_connid_counter}; all histories up to the depth, each re-executed on a fresh real worker and compared with the reference state machine (sentence, tokenized?). E2b: all ordered pairs (s1, s2) of sentences <= 3 chars on one worker over the lexicon/cost and unknown-word universes, with a worker of another dictionary (same thread) handling s2 in between. E3: state = schedule; all interleavings of 2-3 real threads (own worker each, one shared tokenizer) at the instrumented yield points with at most P preemptions; per-thread observations must equal the sequential ones. distinct = distinct observed token sequences".into();
    rep.bounds = json!({"history_depth": tier.pick(5, 7), "ops": 7, "sentences": SENTENCES, "max_preemptions": tier.pick(2, 3), "threads": "2-3"});
    rep.assumptions = vec![
        "interleavings are explored at the instrumented yield points (entry/exit and inside reset_sentence/tokenize, every lattice position); between them the code performs no synchronisation".into(),
        "hardware memory-ordering effects are not modelled".into(),
        "a supplementary free-running pass (4 real threads, no scheduler) samples interleavings below the granularity of the yield points; it is reported as sampling and is not part of the exhaustive claim".into(),
    ];
    if st.get("schedule_caps_hit") > 0 {
        rep.cap_note = Some("a schedule exploration hit its execution cap; see notes".into());
    }
    rep.finish(
        st,
        &[
            "histories_with_repeated_tokenize",
            "history_steps_init_connid_counter",
            "histories_with_shorter_after_longer",
            "context_switches_inside_api_calls",
            "ordered_sentence_pairs_on_one_worker",
        ],
    )
}
