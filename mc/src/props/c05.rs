//! C05: a compiled dictionary round-trips through write/read (lock-step bisimulation of a
//! dictionary and its reloaded twin under all later operation sequences), and images are
//! interchangeable between the portable and the AVX2 build (E5).
use serde_json::json;

use crate::common::*;
use crate::dhist::*;

fn seqs_of(ops: &[Op], depth: usize) -> Vec<Vec<Op>> {
    all_seqs(ops.len(), depth)
        .into_iter()
        .map(|s| s.into_iter().map(|i| ops[i].clone()).collect())
        .collect()
}

fn step_class(s: &RealStep) -> String {
    match s {
        RealStep::Ok(_) => "Ok".into(),
        RealStep::Err(_) => "Err".into(),
        RealStep::Panic(p) => format!("Panic@{}", panic_site(p)),
    }
}

const XDIR: &str = "/verif/target/c05x";
const AVX2_BIN: &str = "/verif/target-avx2/release/vmc";

fn this_build() -> &'static str {
    if cfg!(target_feature = "avx2") {
        "avx2"
    } else {
        "portable"
    }
}

/// Writes, for every (family, history of depth <= d), the image and the observation table of
/// the very instance that was written.
pub fn export(dir: &str, depth: usize) -> i32 {
    let _ = std::fs::remove_dir_all(dir);
    if std::fs::create_dir_all(dir).is_err() {
        println!("MACHINERY: cannot create {dir}");
        return 2;
    }
    let fams = family_d(Tier::Quick);
    let mut n = 0;
    for (fi, f) in fams.iter().enumerate() {
        let ops = all_ops(f);
        let sentences = all_strings(&f.alphabet, 4);
        for (hi, h) in seqs_of(&ops, depth).iter().enumerate() {
            let Ok(d) = exec_history(f, h) else { continue };
            let Ok((bytes, _)) = write_bytes(&d) else { continue };
            let obs = observe(d, &sentences);
            std::fs::write(format!("{dir}/{fi}-{hi}.dic"), &bytes).unwrap();
            std::fs::write(format!("{dir}/{fi}-{hi}.obs"), format!("{:?}", obs)).unwrap();
            std::fs::write(format!("{dir}/{fi}-{hi}.hist"), format!("{} {:?}", f.name, h)).unwrap();
            n += 1;
        }
    }
    println!("EXPORTED {n} images by the {} build", this_build());
    0
}

/// Reads every exported image with this build, observes it and compares with the exporter's
/// table; also re-writes the image and compares the bytes.
pub fn import(dir: &str) -> i32 {
    let fams = family_d(Tier::Quick);
    let mut n = 0;
    let mut bad = 0;
    let mut entries: Vec<_> = std::fs::read_dir(dir).map(|r| r.flatten().map(|e| e.path()).collect()).unwrap_or_default();
    entries.sort();
    for p in entries {
        if p.extension().map_or(true, |e| e != "dic") {
            continue;
        }
        let stem = p.file_stem().unwrap().to_string_lossy().to_string();
        let fi: usize = stem.split('-').next().unwrap().parse().unwrap();
        let sentences = all_strings(&fams[fi].alphabet, 4);
        let bytes = std::fs::read(&p).unwrap();
        let want = std::fs::read_to_string(p.with_extension("obs")).unwrap();
        let hist = std::fs::read_to_string(p.with_extension("hist")).unwrap_or_default();
        n += 1;
        match read_bytes(&bytes) {
            RealStep::Ok(d) => {
                let rew = write_bytes(&d).map(|x| x.0);
                if rew.as_ref().ok() != Some(&bytes) {
                    bad += 1;
                    println!("MISMATCH rewrite {} [{hist}]", p.display());
                }
                let obs = observe(d, &sentences);
                if format!("{:?}", obs) != want {
                    bad += 1;
                    println!("MISMATCH behaviour {} [{hist}]", p.display());
                }
            }
            other => {
                bad += 1;
                println!("MISMATCH read-{} {} [{hist}]", step_class(&other), p.display());
            }
        }
    }
    println!("IMPORTED {n} images by the {} build, {bad} mismatches", this_build());
    if bad > 0 {
        1
    } else {
        0
    }
}

fn cross_build(tier: Tier, st: &mut Stats) {
    let depth = tier.pick(1, 2);
    if !std::is_x86_feature_detected!("avx2") {
        st.notes.push("E5 skipped: CPU lacks AVX2".into());
        st.count("e5_skipped_no_avx2");
        return;
    }
    if !std::path::Path::new(AVX2_BIN).exists() {
        println!("MACHINERY: AVX2 build of the harness is missing ({AVX2_BIN}); bin/check builds it");
        std::process::exit(2);
    }
    let run = |bin: &str, args: &[&str]| -> (i32, String) {
        let out = std::process::Command::new(bin).args(args).output();
        match out {
            Ok(o) => (o.status.code().unwrap_or(2), String::from_utf8_lossy(&o.stdout).to_string()),
            Err(e) => (2, format!("spawn failed: {e}")),
        }
    };
    let me = std::env::current_exe().unwrap().to_string_lossy().to_string();
    let pdir = format!("{XDIR}/portable");
    let adir = format!("{XDIR}/avx2");
    let d = depth.to_string();
    for (exporter, importer, dir, dirname) in [(me.as_str(), AVX2_BIN, pdir.as_str(), "portable->avx2"), (AVX2_BIN, me.as_str(), adir.as_str(), "avx2->portable")] {
        let (c1, o1) = run(exporter, &["c05-export", dir, &d]);
        if c1 != 0 {
            println!("MACHINERY: export failed: {o1}");
            std::process::exit(2);
        }
        let (c2, o2) = run(importer, &["c05-import", dir]);
        let n: u64 = o2
            .lines()
            .find(|l| l.starts_with("IMPORTED"))
            .and_then(|l| l.split_whitespace().nth(1))
            .and_then(|x| x.parse().ok())
            .unwrap_or(0);
        st.add(&format!("e5_images_{dirname}"), n);
        st.states += n;
        st.transitions += n;
        if c2 == 1 {
            for l in o2.lines().filter(|l| l.starts_with("MISMATCH")).take(3) {
                st.violation(Finding {
                    class: format!("cross-build-{}", l.split_whitespace().nth(1).unwrap_or("?")),
                    what: format!("{dirname}: {l}"),
                    replay: json!({"kind": "cross_build", "direction": dirname, "line": l}),
                });
            }
        } else if c2 != 0 {
            println!("MACHINERY: import failed ({c2}): {o2}");
            std::process::exit(2);
        }
    }
}

/// Every bigram model of the C07 family (all K=1 row layouts x cost-table subsets, patterned
/// K up to 17, different widths per side): compile with the raw and the dual connector, write,
/// read, and compare the complete connection table and the re-written bytes.
fn codec_sweep(tier: Tier, st: &mut Stats) {
    let ms = crate::props::c07::models(tier);
    let res = par_explore(ms.len(), |mi, st| {
        let (name, b) = &ms[mi];
        for dual in [false, true] {
            st.states += 1;
            st.transitions += 1;
            let built = guard(|| {
                vibrato::SystemDictionaryBuilder::from_readers_with_bigram_info(
                    "a,1,1,0,f\n".as_bytes(),
                    crate::refmodel::Bigram::render_side(&b.right).as_bytes(),
                    crate::refmodel::Bigram::render_side(&b.left).as_bytes(),
                    b.render_cost().as_bytes(),
                    "DEFAULT 0 1 0\n".as_bytes(),
                    "DEFAULT,0,0,0,u\n".as_bytes(),
                    dual,
                )
            });
            let Ok(Ok(d)) = built else { continue };
            let table = |d: &vibrato::Dictionary| -> Vec<i32> {
                let (nr, nl) = d.verif_conn_dims();
                (0..nr).flat_map(|r| (0..nl).map(move |l| (r, l))).map(|(r, l)| d.verif_conn_cost(r as u16, l as u16)).collect()
            };
            let before = table(&d);
            let case = || json!({"kind": "bigram_connector", "model": name, "dual": dual,
                "bigram.right": crate::refmodel::Bigram::render_side(&b.right), "bigram.left": crate::refmodel::Bigram::render_side(&b.left), "bigram.cost": b.render_cost()});
            let Ok((bytes, n)) = write_bytes(&d) else {
                st.violation(Finding { class: "write-fails".into(), what: format!("write failed for model {name}"), replay: case() });
                continue;
            };
            st.count("codec_sweep_images");
            if n != bytes.len() {
                st.violation(Finding { class: "write-count-wrong".into(), what: format!("write reported {n} bytes but emitted {} [model {name}]", bytes.len()), replay: case() });
            }
            match read_bytes(&bytes) {
                RealStep::Ok(d2) => {
                    let after = guard(|| table(&d2));
                    if after.as_ref().ok() != Some(&before) {
                        st.violation(Finding {
                            class: "reloaded-connection-table-differs".into(),
                            what: format!("model {name} ({}): connection table after write/read {:?}, before {:?}", if dual { "dual" } else { "raw" }, after, before),
                            replay: case(),
                        });
                        continue;
                    }
                    if write_bytes(&d2).ok().map(|x| x.0) != Some(bytes) {
                        st.violation(Finding { class: "rewrite-differs".into(), what: format!("re-written image differs [model {name}]"), replay: case() });
                    }
                    st.outcome(&(name, dual, before));
                }
                other => st.violation(Finding {
                    class: format!("read-of-own-image-{}", step_class(&other)),
                    what: format!("image of model {name} is not readable"),
                    replay: case(),
                }),
            }
        }
    });
    st.merge(res);
}

/// Dictionaries beyond the small families (hundreds of homographs / unknown entries, 18
/// categories, with user lexicon): write, read, and compare the tokens of all their sentences.
fn big_roundtrip(tier: Tier, st: &mut Stats) {
    let us = crate::universe::u_big(tier);
    let res = par_explore(us.len(), |ui, st| {
        let u = &us[ui];
        let mut sentences = all_strings(&u.alphabet, 3);
        sentences.extend(u.extra_sentences.iter().take(20).cloned());
        let Ok((d, _)) = u.build() else { return };
        let Ok((bytes, n)) = write_bytes(&d) else { return };
        st.states += 1;
        st.transitions += 1;
        st.count("big_dictionaries_round_tripped");
        let case = || json!({"kind": "tokenize", "dictionary": u.describe()});
        if n != bytes.len() {
            st.violation(Finding { class: "write-count-wrong".into(), what: format!("write reported {n}, emitted {} [{}]", bytes.len(), u.name), replay: case() });
        }
        let RealStep::Ok(d2) = read_bytes(&bytes) else {
            st.violation(Finding { class: "read-of-own-image-fails".into(), what: format!("image of {} not readable", u.name), replay: case() });
            return;
        };
        if write_bytes(&d2).ok().map(|x| x.0) != Some(bytes) {
            st.violation(Finding { class: "rewrite-differs".into(), what: format!("re-written image differs [{}]", u.name), replay: case() });
        }
        let oa = observe(d, &sentences);
        let ob = observe(d2, &sentences);
        if oa != ob {
            let idx = oa.tokens.iter().zip(&ob.tokens).position(|(x, y)| x != y);
            st.violation(Finding {
                class: "big-dictionary-reload-differs".into(),
                what: format!("reloaded dictionary {} behaves differently (first differing sentence {:?})", u.name, idx.map(|i| sentences[i % sentences.len()].clone())),
                replay: case(),
            });
        }
    });
    st.merge(res);
}

pub fn run(tier: Tier) -> i32 {
    let mut rep = Report::new("C05", tier);
    let fams = family_d(tier);
    let (d1, d2) = tier.pick((2, 2), (2, 3));
    let sent_len = tier.pick(4, 5);
    // tasks: (family, h1)
    let mut tasks = vec![];
    for (fi, f) in fams.iter().enumerate() {
        let ops = all_ops(f);
        for h1 in seqs_of(&ops, d1) {
            tasks.push((fi, h1));
        }
    }
    let st = par_explore(tasks.len(), |ti, st| {
        let (fi, h1) = &tasks[ti];
        let f = &fams[*fi];
        let ops = all_ops(f);
        let sentences = all_strings(&f.alphabet, sent_len);
        let d = match exec_history(f, h1) {
            Ok(d) => d,
            Err((_, RealStep::Panic(p))) => {
                st.violation(Finding {
                    class: format!("op-panic@{}", panic_site(&p)),
                    what: format!("operation panicked: {p} [{} history {:?}]", f.name, h1),
                    replay: json!({"kind": "dict_history", "case": f.describe(h1)}),
                });
                return;
            }
            Err(_) => {
                st.count("prefix_histories_rejected_by_an_op");
                return;
            }
        };
        // write / read / write
        let (bytes, n) = match write_bytes(&d) {
            Ok(x) => x,
            Err(e) => {
                st.violation(Finding {
                    class: "write-fails".into(),
                    what: format!("write failed: {e} [{} {:?}]", f.name, h1),
                    replay: json!({"kind": "dict_history", "case": f.describe(h1)}),
                });
                return;
            }
        };
        st.add("image_bytes_compared", bytes.len() as u64);
        st.count(&format!("images_{:?}", f.base.kind));
        if n != bytes.len() {
            st.violation(Finding {
                class: "write-count-wrong".into(),
                what: format!("write reported {n} bytes but emitted {} [{} {:?}]", bytes.len(), f.name, h1),
                replay: json!({"kind": "dict_history", "case": f.describe(h1)}),
            });
        }
        let d2x = match read_bytes(&bytes) {
            RealStep::Ok(d) => d,
            other => {
                st.violation(Finding {
                    class: format!("read-of-own-image-{}", step_class(&other)),
                    what: format!("Dictionary::read rejected an image written by Dictionary::write [{} {:?}]", f.name, h1),
                    replay: json!({"kind": "dict_history", "case": f.describe(h1)}),
                });
                return;
            }
        };
        match write_bytes(&d2x) {
            Ok((b2, _)) if b2 == bytes => {}
            _ => st.violation(Finding {
                class: "rewrite-differs".into(),
                what: format!("writing the reloaded dictionary does not reproduce the image [{} {:?}]", f.name, h1),
                replay: json!({"kind": "dict_history", "case": f.describe(h1)}),
            }),
        }
        drop(d);
        drop(d2x);
        // lock-step continuation
        for h2 in seqs_of(&ops, d2) {
            st.states += 1;
            st.transitions += 1;
            // side A: never reloaded (except by explicit WriteRead ops in the history);
            // side B: the same instance's image, reloaded after h1. (The dual connector's
            // template split depends on hash order, so B must come from A's own image.)
            let mut a = exec_history(f, h1).ok();
            let img = write_bytes(a.as_ref().unwrap()).map(|x| x.0).unwrap_or_default();
            let mut b = match read_bytes(&img) {
                RealStep::Ok(d) => Some(d),
                _ => None,
            };
            if b.is_none() {
                st.violation(Finding {
                    class: "read-of-own-image-fails".into(),
                    what: format!("Dictionary::read rejected an image written by Dictionary::write [{} {:?}]", f.name, h1),
                    replay: json!({"kind": "dict_history", "case": f.describe(h1)}),
                });
                continue;
            }
            let mut diverged = None;
            for (k, op) in h2.iter().enumerate() {
                let ra = apply_real(f, a.take().unwrap(), op);
                let rb = apply_real(f, b.take().unwrap(), op);
                let (ca, cb) = (step_class(&ra), step_class(&rb));
                if ca != cb {
                    diverged = Some(format!("op {k} {:?}: original {ca}, reloaded {cb}", op));
                    break;
                }
                if ca.starts_with("Panic") {
                    diverged = Some(format!("op {k} {:?} panicked on both sides: {ca}", op));
                    break;
                }
                match (ra, rb) {
                    (RealStep::Ok(x), RealStep::Ok(y)) => {
                        a = Some(x);
                        b = Some(y);
                    }
                    _ => {
                        st.count("continuations_ending_in_Err_on_both_sides");
                        break;
                    }
                }
            }
            let full: Vec<Op> = h1.iter().chain(h2.iter()).cloned().collect();
            if let Some(m) = diverged {
                st.violation(Finding {
                    class: "lockstep-op-outcome-differs".into(),
                    what: format!("{m} [{} h1 {:?} h2 {:?}]", f.name, h1, h2),
                    replay: json!({"kind": "dict_roundtrip_lockstep", "case": f.describe(&full), "reload_after": h1.len()}),
                });
                continue;
            }
            let (Some(a), Some(b)) = (a, b) else { continue };
            let wa = write_bytes(&a);
            let wb = write_bytes(&b);
            if wa != wb {
                st.violation(Finding {
                    class: "lockstep-image-differs".into(),
                    what: format!("after the same operations the original and the reloaded dictionary write different images [{} h1 {:?} h2 {:?}]", f.name, h1, h2),
                    replay: json!({"kind": "dict_roundtrip_lockstep", "case": f.describe(&full), "reload_after": h1.len()}),
                });
                continue;
            }
            let oa = observe(a, &sentences);
            let ob = observe(b, &sentences);
            st.outcome(&(fi, &oa));
            if h2.iter().any(|o| !matches!(o, Op::WriteRead)) {
                st.count("continuations_with_behaviour_changing_ops");
            }
            if oa != ob {
                let what = if oa.conn != ob.conn || oa.dims != ob.dims {
                    "connection table"
                } else if oa.chars != ob.chars {
                    "character table"
                } else {
                    "tokens"
                };
                let idx = oa.tokens.iter().zip(&ob.tokens).position(|(x, y)| x != y);
                st.violation(Finding {
                    class: format!("lockstep-{}-differ", what.replace(' ', "-")),
                    what: format!(
                        "reloaded dictionary behaves differently ({what}; first differing sentence index {:?}) [{} h1 {:?} h2 {:?}]",
                        idx, f.name, h1, h2
                    ),
                    replay: json!({"kind": "dict_roundtrip_lockstep", "case": f.describe(&full), "reload_after": h1.len(),
                        "sentence": idx.map(|i| sentences[i % sentences.len()].clone())}),
                });
            }
            if st.states % 1009 == 0 {
                st.sample(json!({"family": f.name, "h1": format!("{h1:?}"), "h2": format!("{h2:?}"), "image_len": bytes.len()}));
            }
        }
    });
    let mut st = st;
    codec_sweep(tier, &mut st);
    big_roundtrip(tier, &mut st);
    cross_build(tier, &mut st);
    rep.rule = format!("state = (dictionary family, history h1 of depth <= {d1}, continuation h2 of depth <= {d2}) over the ops {{load user lexicon x2, clear, map x4, write->read}}; the dictionary after h1 is written, re-read and re-written; then the original and the reloaded instance run h2 in lock-step and are compared on op outcomes, images, the full connection table and the tokens of all sentences of length <= {sent_len} under two option settings; plus a codec sweep: every bigram model of the C07 family compiled raw and dual, written, re-read and compared on the complete connection table and the re-written bytes; distinct = distinct observation tables");
    rep.bounds = json!({"h1_depth": d1, "h2_depth": d2, "sentence_len": sent_len, "families": fams.iter().map(|f| f.name.clone()).collect::<Vec<_>>()});
    rep.assumptions = vec!["AVX2/portable interchange is checked by the separate dual-build step when an AVX2 CPU is present".into()];
    let mut req = vec!["codec_sweep_images", "big_dictionaries_round_tripped", "continuations_with_behaviour_changing_ops", "images_Matrix", "images_Raw", "images_Dual"];
    if st.get("e5_skipped_no_avx2") == 0 {
        req.push("e5_images_portable->avx2");
        req.push("e5_images_avx2->portable");
    }
    rep.finish(st, &req)
}
