//! C20: MeCab model conversion preserves the model's bigram costs.
use serde_json::json;
use vibrato::mecab::generate_bigram_info;
use vibrato::SystemDictionaryBuilder;

use crate::common::*;
use crate::props::c18::expand;

#[derive(Clone, Debug)]
struct IdTable {
    name: &'static str,
    /// (id, feature csv)
    lines: Vec<(usize, &'static str)>,
    /// raw extra line (malformed) appended
    extra: Option<&'static str>,
}

fn id_tables() -> Vec<IdTable> {
    vec![
        IdTable { name: "0..2", lines: vec![(0, "BOS/EOS,*"), (1, "N,x"), (2, "V,*")], extra: None },
        IdTable { name: "0..3", lines: vec![(0, "BOS/EOS,*"), (1, "N,x"), (2, "V,*"), (3, "N,y")], extra: None },
        IdTable { name: "no-zero", lines: vec![(1, "N,x"), (2, "V,*")], extra: None },
        IdTable { name: "zero-not-bos", lines: vec![(0, "N,x"), (1, "N,x"), (2, "V,*")], extra: None },
        IdTable { name: "gap", lines: vec![(0, "BOS/EOS,*"), (1, "N,x"), (3, "V,*")], extra: None },
        IdTable { name: "malformed-line", lines: vec![(0, "BOS/EOS,*"), (1, "N,x")], extra: Some("two") },
        IdTable { name: "unordered", lines: vec![(2, "V,*"), (0, "BOS/EOS,*"), (1, "N,x")], extra: None },
        IdTable { name: "star-feature", lines: vec![(0, "BOS/EOS,*"), (1, "*,x"), (2, "x,N")], extra: None },
        IdTable { name: "slashes-a", lines: vec![(0, "BOS/EOS,*"), (1, "a,x"), (2, "a/b,x"), (3, "N,b/c")], extra: None },
        IdTable { name: "trailing-blank", lines: vec![(0, "BOS/EOS,*"), (1, "N,x "), (2, "V,\u{3000}"), (3, "N,x")], extra: None },
        IdTable { name: "slashes-b", lines: vec![(0, "BOS/EOS,*"), (1, "b/c,y"), (2, "c,y"), (3, "V,c")], extra: None },
    ]
}

impl IdTable {
    fn render(&self) -> String {
        let mut s = String::new();
        for (id, f) in &self.lines {
            s.push_str(&format!("{id} {f}\n"));
        }
        if let Some(e) = self.extra {
            s.push_str(e);
            s.push('\n');
        }
        s
    }
    /// Ok(features per id 0..=max) if the table is acceptable per the statement.
    fn valid(&self) -> Option<Vec<Vec<String>>> {
        if self.extra.is_some() {
            return None;
        }
        let max = self.lines.iter().map(|l| l.0).max()?;
        let mut v: Vec<Option<Vec<String>>> = vec![None; max + 1];
        for (id, f) in &self.lines {
            v[*id] = Some(f.split(',').map(|s| s.to_string()).collect());
        }
        if let Some(z) = &v[0] {
            if z[0] != "BOS/EOS" {
                return None;
            }
        }
        // ids 1..=max must all be defined (id 0 may be absent: it is implicit)
        if v.iter().skip(1).any(|x| x.is_none()) {
            return None;
        }
        Some(v.into_iter().map(|x| x.unwrap_or_else(|| vec!["BOS/EOS".to_string()])).collect())
    }
}

const TEMPLATES: [(&str, &str); 5] = [("B0:%L[0]", "%R[0]"), ("%L[0]", "%R[1]"), ("B1:%L[0],%L?[1]", "%R?[1]"), ("%L[0]", "%R[0]"), ("B2:%L?[1],%L?[2]", "B2:%R?[2],%R?[1]")];

/// model.def line menu: (weight text, feature text)
const MODEL_LINES: [(&str, &str); 18] = [
    ("50", "B0:V/V"),     // -35000 with factor 700
    ("-47.5", "V/x"),     // +33250 with factor 700 (bare template)
    ("0.9", "B1:N,x/BOS/EOS"), // left word -> EOS
    ("0.6", "BOS/EOS/x"),      // BOS -> right word (bare template)
    ("-0.8", "B1:N,x/"),
    ("01.0", "a/b/c"),       // splits as (a, b/c) and as (a/b, c)
    ("-0.5", "B0:a/b/c"),
    (".5", "B0:N/V"),       // bare decimal point
    ("-1.25", "B0:V/N"),
    ("0.0001", "B0:N/N"),   // rounds to zero
    ("2", "B0:Q/Q"),        // unmatched
    ("3", "U:N"),           // unigram line
    ("7", "B0:N/V/Z"),      // a third '/' part: not the text of any bigram feature
    ("-.75", "N/x"),
    ("1.5", "B1:N,x/x"),
    ("-2.", "V/*"),
    // features ending in a blank / U+3000 (table "trailing-blank"); toggled together in the full enumeration
    ("1.0", "N/x "),
    ("0.25", "V/\u{3000}"),
];

pub fn run(tier: Tier) -> i32 {
    let mut rep = Report::new("C20", tier);
    let tables = id_tables();
    let tsets: Vec<Vec<usize>> = vec![vec![0], vec![1], vec![2], vec![0, 1], vec![0, 2], vec![1, 2], vec![0, 1, 2], vec![3], vec![0, 3], vec![4, 0], vec![4, 2, 1]];
    let factors = [100.0f64, 700.0];
    let nmask = 1usize << MODEL_LINES.len();
    let mut tasks = vec![];
    for (ri, _) in tables.iter().enumerate() {
        for (li, _) in tables.iter().enumerate() {
            // quick: right and left tables coupled unless one of them is plain
            if tier == Tier::Quick && ri != li && ri > 1 && li > 1 && !(tables[ri].name == "slashes-a" && tables[li].name == "slashes-b") {
                continue;
            }
            for ts in 0..tsets.len() {
                tasks.push((ri, li, ts));
            }
        }
    }
    let st = par_explore(tasks.len(), |ti, st| {
        let (ri, li, ts) = tasks[ti];
        let (rt, lt) = (&tables[ri], &tables[li]);
        let tset = &tsets[ts];
        let mut fdef = String::from("UNIGRAM U:%F[0]\n");
        for &t in tset {
            fdef.push_str(&format!("BIGRAM {}/{}\n", TEMPLATES[t].0, TEMPLATES[t].1));
        }
        let all_masks = tier == Tier::Thorough && ri <= 1 && li <= 1 && ts % 2 == 0;
        // quick (and the other table pairs in thorough): every subset of at most 3 lines and every
        // subset missing at most one line (interactions between lines are pairwise: same text
        // overriding, sums over templates)
        let small_masks = ri <= 1 && li <= 1;
        let masks: Vec<usize> = if all_masks {
            // the last two lines (trailing-blank features) are switched on and off together
            (0..nmask).filter(|m| (m >> 16) == 0 || (m >> 16) == 3).collect()
        } else if small_masks {
            (0..nmask).filter(|m| m.count_ones() <= 3 || m.count_ones() as usize >= MODEL_LINES.len() - 1).collect()
        } else { vec![0, nmask - 1, 0b1010101010101010, 0b0101010101010101, 0b0001000111111111, 0b1100000, 0b100000, 0b1000000, 0b11100, 0b11, 0b1, 0b10, 0b110000000000000000, 0b010000000000000001, 0b100000000000000010] };
        for mask in masks {
            for factor in factors {
                st.states += 1;
                st.transitions += 1;
                let mut model = String::new();
                for (i, (w, f)) in MODEL_LINES.iter().enumerate() {
                    if mask & (1 << i) != 0 {
                        model.push_str(&format!("{w}\t{f}\n"));
                    }
                }
                let case = || json!({"kind": "mecab_model", "feature.def": fdef, "right-id.def": rt.render(), "left-id.def": lt.render(), "model.def": model, "cost_factor": factor});
                let (mut br, mut bl, mut bc) = (vec![], vec![], vec![]);
                let res = guard(|| generate_bigram_info(fdef.as_bytes(), rt.render().as_bytes(), lt.render().as_bytes(), model.as_bytes(), factor, &mut br, &mut bl, &mut bc));
                let expect_ok = rt.valid().is_some() && lt.valid().is_some();
                let class = match &res {
                    Err(p) => format!("Panic@{}", panic_site(p)),
                    Ok(Err(_)) => "Err".into(),
                    Ok(Ok(())) => "Ok".into(),
                };
                st.outcome(&(ri, li, ts, mask, &class));
                if class.starts_with("Panic") {
                    st.violation(Finding {
                        class: format!("mecab-{class}"),
                        what: format!("generate_bigram_info panicked: {:?}", res),
                        replay: case(),
                    });
                    continue;
                }
                if !expect_ok {
                    st.count("malformed_id_tables");
                    if class == "Ok" {
                        st.violation(Finding {
                            class: format!("malformed-id-table-accepted-{}-{}", rt.name, lt.name),
                            what: format!("id tables right={} left={} must be reported as an error but the conversion succeeded", rt.name, lt.name),
                            replay: case(),
                        });
                    }
                    continue;
                }
                if class != "Ok" {
                    st.violation(Finding {
                        class: format!("valid-mecab-model-rejected-{}-{}", rt.name, lt.name),
                        what: format!("valid MeCab model description rejected (right ids {}, left ids {})", rt.name, lt.name),
                        replay: case(),
                    });
                    continue;
                }
                st.count("conversions_accepted");
                let rfeat = rt.valid().unwrap();
                let lfeat = lt.valid().unwrap();
                // compile with a probe lexicon and read the connection costs
                let lex = "a,1,1,0,p\n";
                let built = guard(|| SystemDictionaryBuilder::from_readers_with_bigram_info(lex.as_bytes(), &*br, &*bl, &*bc, "DEFAULT 0 1 0\n".as_bytes(), "DEFAULT,0,0,0,u\n".as_bytes(), false));
                let d = match built {
                    Ok(Ok(d)) => d,
                    other => {
                        st.violation(Finding {
                            class: "generated-bigram-files-do-not-compile".into(),
                            what: format!("the generated files do not compile: {:?} / right {:?} left {:?} cost {:?}", other.map(|r| r.map(|_| ()).map_err(|e| e.to_string())), String::from_utf8_lossy(&br), String::from_utf8_lossy(&bl), String::from_utf8_lossy(&bc)),
                            replay: case(),
                        });
                        continue;
                    }
                };
                let dims = d.verif_conn_dims();
                if dims != (rfeat.len(), lfeat.len()) {
                    st.violation(Finding {
                        class: "ids-not-dense".into(),
                        what: format!("the generated files define {:?} (right, left) ids, the id tables define {:?} [right {} left {}]", dims, (rfeat.len(), lfeat.len()), rt.name, lt.name),
                        replay: case(),
                    });
                    continue;
                }
                // weights by feature text (later lines override earlier ones with the same text)
                let mut weights: std::collections::HashMap<&str, f64> = std::collections::HashMap::new();
                for (i, (w, f)) in MODEL_LINES.iter().enumerate() {
                    if mask & (1 << i) != 0 {
                        weights.insert(*f, w.parse().unwrap());
                    }
                }
                for r in 1..rfeat.len() {
                    for l in 1..lfeat.len() {
                        let mut want: i64 = 0;
                        for &t in tset {
                            let le = expand(TEMPLATES[t].0, 'L', false, &rfeat[r], 0);
                            let re = expand(TEMPLATES[t].1, 'R', false, &lfeat[l], 0);
                            if let (Some(le), Some(re)) = (le, re) {
                                let text = format!("{le}/{re}");
                                if let Some(w) = weights.get(text.as_str()) {
                                    want += -((w * factor) as i32) as i64;
                                }
                            }
                        }
                        let got = i64::from(d.verif_conn_cost(r as u16, l as u16));
                        st.count("id_pairs_compared");
                        if want != 0 {
                            st.count("id_pairs_with_nonzero_cost");
                        }
                        if got != want {
                            st.violation(Finding {
                                class: "converted-cost-differs".into(),
                                what: format!("cost({r},{l}) of the compiled conversion is {got}, the model says {want} [templates {:?} right {} left {} factor {factor}]", tset, rt.name, lt.name),
                                replay: case(),
                            });
                            break;
                        }
                    }
                }
            }
        }
        if ti % 9 == 0 {
            st.sample(json!({"feature.def": fdef, "right-id.def": rt.render(), "left-id.def": lt.render()}));
        }
    });
    // malformed id lines: every shape of a menu at every line position of either table
    let mut st = st;
    {
        let good = ["0 BOS/EOS,*", "1 N,x", "2 V,*"];
        let bad = ["two", "+2 V,b", "-2 V,b", "x2 V,b", " 2 V,b", "2\tV,b", "2", "2V,b", "0x2 V,b", "\u{FF12} V,b", "2,V,b", "+0 BOS/EOS,*", "1.0 N,x", "", " "];
        let fdef = "UNIGRAM U:%F[0]\nBIGRAM B0:%L[0]/%R[0]\n";
        let model = "1.5\tB0:N/V\n";
        for b in bad {
            for pos in 0..=good.len() {
                for side in 0..2 {
                    let mut lines: Vec<&str> = good.to_vec();
                    lines.insert(pos, b);
                    let bad_table = format!("{}\n", lines.join("\n"));
                    let good_table = format!("{}\n", good.join("\n"));
                    let (r, l) = if side == 0 { (bad_table.clone(), good_table.clone()) } else { (good_table.clone(), bad_table.clone()) };
                    // an empty line at the very end is only a final newline
                    if b.is_empty() && pos == good.len() {
                        continue;
                    }
                    st.states += 1;
                    st.transitions += 1;
                    st.count("malformed_id_lines");
                    let (mut br, mut bl, mut bc) = (vec![], vec![], vec![]);
                    let res = guard(|| generate_bigram_info(fdef.as_bytes(), r.as_bytes(), l.as_bytes(), model.as_bytes(), 100.0, &mut br, &mut bl, &mut bc));
                    let class = match &res {
                        Err(p) => format!("Panic@{}", panic_site(p)),
                        Ok(Err(_)) => "Err".to_string(),
                        Ok(Ok(())) => "Ok".to_string(),
                    };
                    if class != "Err" {
                        st.violation(Finding {
                            class: format!("malformed-id-line-{class}"),
                            what: format!("id table with the malformed line {:?} at position {pos} of the {} table: expected Err, got {class}", b, if side == 0 { "right" } else { "left" }),
                            replay: json!({"kind": "mecab_model", "feature.def": fdef, "right-id.def": r, "left-id.def": l, "model.def": model, "cost_factor": 100.0}),
                        });
                    }
                }
            }
        }
    }
    rep.rule = "state = (bigram template set from 3 templates incl. optional references, right-id and left-id tables from a 10-table menu (incl. features containing a slash) (plain, 4 ids, without id 0, id 0 not BOS/EOS, gap, malformed line, unordered, '*' feature, features ending in a blank / U+3000), subset of a 14-line model.def menu (incl. BOS/EOS lines) (positive, negative, weights spelled '.5', '-.75', '-2.', '01.0', rounds to zero, unmatched, unigram line, line with a third '/' part, bare-template lines), cost factor 100/700); accepted conversions are compiled with a probe lexicon and every non-zero id pair's connection cost is compared with the sum over applicable templates of -trunc(weight x factor) of the line whose text is left expansion '/' right expansion; malformed tables must give Err, and so must 15 malformed id-line shapes (sign-prefixed, non-ASCII digit, missing space, tab, empty...) at every line position of either table; distinct = distinct (tables, templates, lines, outcome)".into();
    rep.bounds = json!({"id_tables": tables.len(), "template_sets": tsets.len(), "model_line_subsets": nmask});
    rep.finish(st, &["malformed_id_tables", "malformed_id_lines", "conversions_accepted", "id_pairs_with_nonzero_cost"])
}
