pub mod tok;
pub mod c04;
pub mod c05;
pub mod c06;
pub mod c08;
pub mod c12;
pub mod c13;
pub mod c09;
