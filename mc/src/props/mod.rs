pub mod tok;
