pub mod tok;
pub mod c04;
