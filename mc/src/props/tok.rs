//! C01 (tokens partition the input), C02 (minimum-cost path), C03 (candidate sets):
//! input-tree exploration (engine E1) over the unknown-word and lexicon universes.
use serde_json::json;

use crate::common::*;
use crate::real::*;
use crate::refmodel::*;
use crate::universe::*;

#[derive(Clone, Copy, PartialEq, Eq)]
pub enum Which {
    C01,
    C02,
    C03,
}

fn case_json(u: &Universe, opts: Opts, s: &str) -> serde_json::Value {
    json!({
        "kind": "tokenize",
        "dictionary": u.describe(),
        "ignore_space": opts.ignore_space,
        "max_grouping_len": opts.mgl,
        "sentence": s,
        "sentence_escaped": s.escape_unicode().to_string(),
    })
}

fn finding(class: &str, what: String, u: &Universe, opts: Opts, s: &str, extra: serde_json::Value) -> Finding {
    let mut c = case_json(u, opts, s);
    c["details"] = extra;
    Finding {
        class: class.to_string(),
        what: format!("{what} [universe {} opts {:?} sentence {:?}]", u.name, opts, s),
        replay: c,
    }
}

/// Structural oracle of C01 on one tokenization result. Returns a (class, message) on failure.
pub fn c01_oracle(rd: &RefDict, opts: Opts, s: &str, run: &RealRun, order: &[usize]) -> Result<(), (String, String)> {
    let chars: Vec<(usize, char)> = s.char_indices().collect();
    let n = chars.len();
    let byte_of = |ci: usize| if ci < n { chars[ci].0 } else { s.len() };
    let toks = &run.tokens;
    let fail = |c: &str, m: String| Err((c.to_string(), m));
    if s.is_empty() && !toks.is_empty() {
        return fail("empty-input-yields-tokens", format!("{} tokens for the empty string", toks.len()));
    }
    // token(i) and token_iter agree
    if toks.len() != run.iter_tokens.len() {
        return fail("iter-mismatch", "token_iter and token(i) disagree on the number of tokens".into());
    }
    for (t, it) in toks.iter().zip(&run.iter_tokens) {
        if (t.cs, t.ce, t.bs, t.be, &t.surface, &t.feature) != (it.0, it.1, it.2, it.3, &it.4, &it.5) {
            return fail("iter-mismatch", format!("token_iter item differs from token(i): {:?} vs {:?}", t, it));
        }
    }
    let mut prev_end = 0usize;
    for (i, t) in toks.iter().enumerate() {
        if t.cs >= t.ce {
            return fail("empty-token", format!("token {i} has empty char range {}..{}", t.cs, t.ce));
        }
        if t.ce > n {
            return fail("range-out-of-input", format!("token {i} char range {}..{} exceeds input of {n} chars", t.cs, t.ce));
        }
        if t.cs < prev_end {
            return fail("overlap-or-disorder", format!("token {i} starts at {} before previous end {prev_end}", t.cs));
        }
        if t.bs != byte_of(t.cs) || t.be != byte_of(t.ce) {
            return fail(
                "byte-range-mismatch",
                format!("token {i} byte range {}..{} does not match char range {}..{} (expected {}..{})", t.bs, t.be, t.cs, t.ce, byte_of(t.cs), byte_of(t.ce)),
            );
        }
        if t.surface != s[byte_of(t.cs)..byte_of(t.ce)] {
            return fail("surface-mismatch", format!("token {i} surface {:?} is not input[{}..{}]", t.surface, t.cs, t.ce));
        }
        // gap before this token
        if t.cs > prev_end {
            if !opts.ignore_space {
                return fail("uncovered-gap", format!("chars {prev_end}..{} are not covered by any token", t.cs));
            }
            let (set, _) = rd.info(chars[prev_end].1);
            let sp = rd.cat_id("SPACE").map(|k| 1u32 << k).unwrap_or(0);
            if set & sp == 0 {
                return fail("gap-not-space", format!("gap {prev_end}..{} begins with a non-SPACE character", t.cs));
            }
        }
        prev_end = t.ce;
        // the entry it names
        let entry: Option<(&str, u16, u16, i16, Option<&str>)> = match t.lex {
            0 => rd
                .sys
                .get(t.word_id as usize)
                .map(|r| (r.feature.as_str(), r.left, r.right, r.cost, Some(r.surface.as_str()))),
            1 => rd
                .user
                .as_ref()
                .and_then(|u| u.get(t.word_id as usize))
                .map(|r| (r.feature.as_str(), r.left, r.right, r.cost, Some(r.surface.as_str()))),
            _ => order
                .get(t.word_id as usize)
                .map(|&ui| &rd.unk[ui])
                .map(|r| (r.feature.as_str(), r.left, r.right, r.cost, None)),
        };
        match entry {
            None => {
                return fail("names-no-entry", format!("token {i} names entry lex={} id={} which does not exist", t.lex, t.word_id));
            }
            Some((f, l, r, c, surf)) => {
                if t.feature != f || t.left != l || t.right != r || t.cost != c {
                    return fail(
                        "entry-fields-mismatch",
                        format!(
                            "token {i} ({:?}) reports feature={:?} ids=({},{}) cost={} but entry lex={} id={} has feature={:?} ids=({l},{r}) cost={c}",
                            t.surface, t.feature, t.left, t.right, t.cost, t.lex, t.word_id, f
                        ),
                    );
                }
                if let Some(surf) = surf {
                    if surf != t.surface {
                        return fail("entry-surface-mismatch", format!("token {i} surface {:?} but the named lexicon entry has surface {:?}", t.surface, surf));
                    }
                }
            }
        }
    }
    if prev_end < n {
        if !opts.ignore_space {
            return fail("uncovered-tail", format!("chars {prev_end}..{n} are not covered by any token"));
        }
        let (set, _) = rd.info(chars[prev_end].1);
        let sp = rd.cat_id("SPACE").map(|k| 1u32 << k).unwrap_or(0);
        if set & sp == 0 {
            return fail("gap-not-space", format!("trailing gap {prev_end}..{n} begins with a non-SPACE character"));
        }
    }
    Ok(())
}

/// C02 oracle: optimality over the candidate set actually present in the lattice, prefix sums,
/// and the per-node recurrence.
pub fn c02_oracle(rd: &RefDict, run: &RealRun, st: &mut Stats) -> Result<(), (String, String)> {
    let fail = |c: &str, m: String| Err((c.to_string(), m));
    let conn = |r: u16, l: u16| rd.conn(r, l);
    let (eos_from, _eos_idx, eos_cost) = match run.eos {
        Some(e) => e,
        None => return Ok(()),
    };
    // (a) reported path cost from token fields
    let mut acc: i64 = 0;
    let mut prev_r: u16 = 0;
    for (i, t) in run.tokens.iter().enumerate() {
        acc += conn(prev_r, t.left) + i64::from(t.cost);
        if i64::from(t.total) != acc {
            return fail(
                "total-cost-not-prefix-sum",
                format!("token {i} total_cost {} but accumulated cost from sentence start is {acc}", t.total),
            );
        }
        prev_r = t.right;
    }
    let reported = acc + conn(prev_r, 0);
    if i64::from(eos_cost) != reported {
        return fail("eos-cost-mismatch", format!("EOS minimum {} differs from cost of the reported path {reported}", eos_cost));
    }
    let best = best_cost(&run.nodes, eos_from, &conn);
    match best {
        None => return fail("no-path", "reference finds no path through the lattice nodes".into()),
        Some(b) => {
            if b != reported {
                return fail(
                    "not-minimal",
                    format!("reported path costs {reported} but a path of cost {b} exists among the lattice candidates"),
                );
            }
        }
    }
    // explicit enumeration cross-check of the memoised minimum
    if let Some((paths, emin, nbest)) = enumerate_paths(&run.nodes, eos_from, &conn, 3000) {
        st.count("c02_sentences_cross_checked_by_path_enumeration");
        if paths >= 2 {
            st.count("c02_sentences_with_2+_paths");
        }
        if nbest >= 2 {
            st.count("c02_sentences_with_exact_ties");
        }
        if emin != best {
            return Err(("machinery".into(), format!("path enumeration {emin:?} != memo {best:?}")));
        }
        // does the EOS connection change the argmin? compare with minimum ignoring conn(.,0)
        let no_eos = |r: u16, l: u16| if l == 0 { 0 } else { rd.conn(r, l) };
        if let Some(b2) = best_cost(&run.nodes, eos_from, &no_eos) {
            // different optimum value structure => EOS column matters for this sentence
            if best.map(|b| b - b2) != Some(conn(prev_r, 0)) {
                st.count("c02_sentences_where_eos_connection_changes_argmin");
            }
        }
    } else {
        st.count("c02_sentences_over_path_enumeration_cap");
    }
    // (b) recurrence on every node
    for (nd, min_idx, min_cost) in &run.node_minima {
        let preds: Vec<(usize, &RefNode, i32)> = run
            .node_minima
            .iter()
            .filter(|(p, _, _)| p.end == nd.start_node)
            .enumerate()
            .map(|(i, (p, _, c))| (i, p, *c))
            .collect();
        let expect: Option<i64> = if nd.start_node == 0 {
            Some(conn(0, nd.left))
        } else {
            preds.iter().map(|(_, p, c)| i64::from(*c) + conn(p.right, nd.left)).min()
        };
        let expect = match expect {
            Some(e) => e + i64::from(nd.cost),
            None => return fail("node-without-predecessor", format!("lattice node {:?} has no predecessor", nd)),
        };
        if i64::from(*min_cost) != expect {
            return fail(
                "recurrence-broken",
                format!("node {:?} stores prefix minimum {min_cost} but min over its predecessors is {expect}", nd),
            );
        }
        // min_idx attains it (index into the list of nodes ending at start_node; BOS at index 0 of boundary 0)
        if nd.start_node != 0 {
            let i = usize::from(*min_idx);
            match preds.get(i) {
                Some((_, p, c)) => {
                    if i64::from(*c) + conn(p.right, nd.left) + i64::from(nd.cost) != expect {
                        return fail("min-idx-not-argmin", format!("node {:?}: back pointer {i} does not attain the minimum", nd));
                    }
                }
                None => return fail("min-idx-out-of-range", format!("node {:?}: back pointer {i} out of range", nd)),
            }
        }
    }
    Ok(())
}

/// C03 oracle: lattice candidates equal the reference candidates.
pub fn c03_oracle(a: &Analysis, run: &RealRun) -> Result<(), (String, String)> {
    let fail = |c: &str, m: String| Err((c.to_string(), m));
    let mut real = run.nodes.clone();
    real.sort();
    let mut exp = a.nodes.clone();
    exp.sort();
    if real != exp {
        // find first difference
        let missing: Vec<_> = exp.iter().filter(|n| !real.contains(n)).take(3).collect();
        let extra: Vec<_> = real.iter().filter(|n| !exp.contains(n)).take(3).collect();
        let class = if !missing.is_empty() && extra.is_empty() {
            "candidates-missing"
        } else if missing.is_empty() && !extra.is_empty() {
            "candidates-extra"
        } else if missing.is_empty() && extra.is_empty() {
            "candidates-multiplicity"
        } else {
            "candidates-differ"
        };
        return fail(
            class,
            format!("lattice candidates differ from the reference: missing {:?}, unexpected {:?} ({} real vs {} expected nodes)", missing, extra, real.len(), exp.len()),
        );
    }
    match (run.eos, a.eos_from) {
        (Some((sn, _, _)), Some(e)) if sn == e => {}
        (x, y) => {
            return fail("eos-boundary-differs", format!("EOS connected from {:?}, reference expects {:?}", x.map(|e| e.0), y));
        }
    }
    Ok(())
}

struct Plan {
    which: Which,
    universes: Vec<Universe>,
    max_len: usize,
}

fn explore(plan: &Plan, kf: &[KnownFinding], prop: &str) -> Stats {
    let which = plan.which;
    par_explore(plan.universes.len(), |ui, st| {
        let u = &plan.universes[ui];
        let mut sentences = all_strings(&u.alphabet, if u.extra_sentences.is_empty() { plan.max_len } else { plan.max_len.min(3) });
        sentences.extend(u.extra_sentences.iter().cloned());
        // neighbour instances in the same thread: a twin with its categories declared in another
        // order and the next dictionary of the family (different lexicon / char.def), one built and
        // used BEFORE this dictionary is built, one AFTER it is built and before it is used.
        // A dictionary must behave the same whatever else lives in its thread.
        let neighbours: Vec<Universe> = [u.swapped_categories(), Some(plan.universes[(ui + 1) % plan.universes.len()].clone())].into_iter().flatten().collect();
        let exercise = |v: &Universe, st: &mut Stats| {
            if let Ok((d, _)) = v.build() {
                if let Ok(t) = make_tokenizer(d, v.opts[0]) {
                    for s in sentences.iter().skip(1).step_by(sentences.len() / 3 + 1).take(3) {
                        let _ = run_fresh(&t, s, false);
                    }
                    st.count("neighbour_instances_exercised_in_the_same_thread");
                }
            }
        };
        for &opts in &u.opts {
            if let Some(v) = neighbours.first() {
                exercise(v, st);
            }
            let (dict, rd) = match u.build() {
                Ok(x) => x,
                Err(e) => {
                    eprintln!("MACHINERY: universe {} does not build: {e}", u.name);
                    std::process::exit(2);
                }
            };
            if let Some(v) = neighbours.last() {
                exercise(v, st);
            }
            let t = match make_tokenizer(dict, opts) {
                Ok(t) => t,
                Err(e) => {
                    eprintln!("MACHINERY: universe {} tokenizer options rejected: {e}", u.name);
                    std::process::exit(2);
                }
            };
            let order = rd.unk_order();
            let mut rd_k2 = rd.clone();
            rd_k2.astral_takes_nul = true;
            // C01: "all options" includes how they were reached: the same final values after a
            // detour of option calls must give the same tokenizer
            let detoured = if which == Which::C01 && ui % 2 == 0 {
                let (d2, _) = u.build().unwrap();
                match make_tokenizer_detour(d2, opts, ui / 2) {
                    Ok(t2) => Some(t2),
                    Err(e) => {
                        st.violation(finding("option-detour-rejected", format!("the option values {:?} are accepted directly but not after a detour of option calls: {e}", opts), u, opts, "", json!({"detour": (ui / 2) % 3})));
                        None
                    }
                }
            } else {
                None
            };
            // the same sentence through a NEIGHBOUR dictionary immediately before this dictionary
            // sees it (alternately the twin with swapped category ids and the next dictionary of
            // the family): nothing of that may leak into this dictionary's result
            let neighbour_tokenizers: Vec<vibrato::Tokenizer> = neighbours
                .iter()
                .filter_map(|v| v.build().ok().and_then(|(d, _)| make_tokenizer(d, Opts { ignore_space: opts.ignore_space && v.dict.cats.iter().any(|c| c.name == "SPACE"), mgl: opts.mgl }).ok()))
                .collect();
            // C01 / C02: the statements hold on a reused worker as well (enumeration order, then
            // reverse order); the fresh-worker tokens are the reference for that pass
            let reuse = which != Which::C03;
            let mut reused = t.new_worker();
            let mut fresh_tokens: Vec<(usize, Vec<Tok>)> = vec![];
            for (si, s) in sentences.iter().enumerate() {
                st.states += 1;
                if !s.is_empty() {
                    st.transitions += 1;
                }
                let a = rd.analyze_with(s, opts, false, &order);
                for (i, r) in a.rules.iter().enumerate() {
                    if *r > 0 {
                        st.add(RULE_NAMES[i], u64::from(*r));
                    }
                }
                if !neighbour_tokenizers.is_empty() {
                    let _ = run_fresh(&neighbour_tokenizers[si % neighbour_tokenizers.len()], s, false);
                }
                let run = run_fresh(&t, s, true);
                let run = match run {
                    Err(p) => {
                        // panic
                        let predicted_unreachable = !s.is_empty() && a.eos_from.is_none();
                        let k2a = rd_k2.analyze_with(s, opts, false, &order);
                        let unreachable_k2 = !s.is_empty() && k2a.eos_from.is_none();
                        if u.k1 && (predicted_unreachable || unreachable_k2) && which != Which::C02 && is_open(kf, prop, "K1") {
                            st.known("K1", "category without unk.def entries: end of sentence unreachable, tokenize panics");
                            st.count("k1_panics_explained");
                            continue;
                        }
                        if which == Which::C01 || which == Which::C03 {
                            st.violation(finding(
                                &format!("panic@{}", panic_site(&p)),
                                format!("tokenize panicked: {p}"),
                                u,
                                opts,
                                s,
                                json!({"panic": p, "reference_predicts_eos_reachable": !predicted_unreachable}),
                            ));
                        } else {
                            st.count("c02_skipped_panicking_sentence");
                        }
                        continue;
                    }
                    Ok(r) => r,
                };
                if let Some(t2) = &detoured {
                    st.count("sentences_on_a_tokenizer_configured_through_a_detour");
                    let r2 = run_fresh(t2, s, false).map(|r| r.tokens);
                    if r2.as_ref().ok() != Some(&run.tokens) {
                        st.violation(finding(
                            "option-history-changes-result",
                            format!("a tokenizer whose options reached {:?} through a detour (variant {}) gives {:?}, the directly configured one {:?}", opts, (ui / 2) % 3, r2.as_ref().map(|t| t.iter().map(|x| x.surface.clone()).collect::<Vec<_>>()), run.tokens.iter().map(|x| x.surface.clone()).collect::<Vec<_>>()),
                            u,
                            opts,
                            s,
                            json!({"detour": (ui / 2) % 3}),
                        ));
                    }
                }
                if reuse {
                    let w = &mut reused;
                    let r = guard(|| {
                        w.reset_sentence(s);
                        w.tokenize();
                        read_tokens(w)
                    });
                    st.count("sentences_on_a_reused_worker");
                    if r.as_ref().ok() != Some(&run.tokens) {
                        st.violation(finding(
                            "reused-worker-result-differs",
                            format!("on a reused worker (after the preceding sentences of the enumeration) the tokens are {:?}, on a fresh worker {:?}", r.as_ref().map(|t| t.iter().map(|x| (x.surface.clone(), x.total)).collect::<Vec<_>>()), run.tokens.iter().map(|x| (x.surface.clone(), x.total)).collect::<Vec<_>>()),
                            u,
                            opts,
                            s,
                            json!({"note": "reused worker, enumeration order"}),
                        ));
                        reused = t.new_worker();
                    }
                    fresh_tokens.push((si, run.tokens.clone()));
                }
                st.outcome(&(&u.name, opts, &run.tokens));
                st.add("tokens", run.tokens.len() as u64);
                for tk in &run.tokens {
                    st.count(match tk.lex {
                        0 => "tokens_system",
                        1 => "tokens_user",
                        _ => "tokens_unknown",
                    });
                }
                if s.chars().any(|c| c.len_utf8() == 4) {
                    st.count("sentences_with_astral_char");
                }
                if s.chars().any(|c| c.len_utf8() == 2 || c.len_utf8() == 3) {
                    st.count("sentences_with_multibyte_char");
                }
                if s.chars().count() > 32 {
                    st.count("sentences_longer_than_32_chars");
                }
                if run.nodes.len() > 0 {
                    let mut per_end = std::collections::HashMap::new();
                    for n in &run.nodes {
                        *per_end.entry(n.end).or_insert(0usize) += 1;
                    }
                    let mx = per_end.values().copied().max().unwrap_or(0);
                    if mx > 16 {
                        st.count("sentences_with_more_than_16_nodes_at_a_boundary");
                    }
                    if mx > 256 {
                        st.count("sentences_with_more_than_256_nodes_at_a_boundary");
                    }
                }
                if st.states % 200_003 == 1 {
                    st.sample(json!({"universe": u.name, "opts": format!("{opts:?}"), "sentence": s, "tokens": run.tokens.iter().map(|t| t.to_json()).collect::<Vec<_>>() }));
                }
                match which {
                    Which::C01 => {
                        if opts.ignore_space {
                            let n = s.chars().count();
                            let covered: usize = run.tokens.iter().map(|t| t.ce - t.cs).sum();
                            if covered < n {
                                st.count("sentences_with_gaps");
                                if run.tokens.first().map_or(true, |t| t.cs > 0) {
                                    st.count("gaps_leading");
                                }
                                if run.tokens.last().map_or(true, |t| t.ce < n) {
                                    st.count("gaps_trailing");
                                }
                                if run.tokens.windows(2).any(|w| w[0].ce < w[1].cs) {
                                    st.count("gaps_inner");
                                }
                            }
                        }
                        if let Err((class, msg)) = c01_oracle(&rd, opts, s, &run, &order) {
                            st.violation(finding(&class, msg, u, opts, s, json!({"tokens": run.tokens.iter().map(|t| t.to_json()).collect::<Vec<_>>()})));
                        }
                    }
                    Which::C02 => {
                        if s.is_empty() {
                            continue;
                        }
                        match c02_oracle(&rd, &run, st) {
                            Ok(()) => {}
                            Err((class, msg)) if class == "machinery" => {
                                eprintln!("MACHINERY: {msg}");
                                std::process::exit(2);
                            }
                            Err((class, msg)) => {
                                st.violation(finding(&class, msg, u, opts, s, json!({"tokens": run.tokens.iter().map(|t| t.to_json()).collect::<Vec<_>>()})));
                            }
                        }
                        // black-box cross-check against the reference candidate set
                        let a2 = rd.analyze_with(s, opts, true, &order);
                        if let (Some(b), Some((_, _, ec))) = (a2.best, run.eos) {
                            if b != i64::from(ec) {
                                st.count("c02_reference_candidate_minimum_differs (candidate generation, see C03)");
                            } else {
                                st.count("c02_agrees_with_reference_candidates");
                            }
                        }
                    }
                    Which::C03 => {
                        if s.is_empty() {
                            continue;
                        }
                        st.add("positions_checked", a.processed.len() as u64);
                        if let Err((class, msg)) = c03_oracle(&a, &run) {
                            // K2?
                            let k2a = rd_k2.analyze_with(s, opts, false, &order);
                            if s.chars().any(|c| (c as u32) > 0xFFFF)
                                && rd.info('\0') != (1, 0)
                                && c03_oracle(&k2a, &run).is_ok()
                                && is_open(kf, prop, "K2")
                            {
                                st.known("K2", "characters above U+FFFF take the category of U+0000 when a char.def range covers U+0000");
                                st.count("k2_explained");
                            } else {
                                st.violation(finding(&class, msg, u, opts, s, json!({"real_nodes": format!("{:?}", run.nodes), "expected_nodes": format!("{:?}", a.nodes)})));
                            }
                        } else {
                            // homograph multiplicities
                            let mut v = a.nodes.clone();
                            v.sort_by_key(|n| (n.start_word, n.end, n.lex));
                            if v.windows(2).any(|w| w[0].start_word == w[1].start_word && w[0].end == w[1].end && w[0].lex == w[1].lex && w[0].lex != 2) {
                                st.count("sentences_with_lexicon_homographs");
                            }
                        }
                    }
                }
            }
            // reverse order (longer sentences first) on one worker (C02: every second dictionary)
            if reuse && (which != Which::C02 || ui % 2 == 0) {
                let mut reused = t.new_worker();
                let mut reported = 0;
                for (si, ft) in fresh_tokens.iter().rev() {
                    let s = &sentences[*si];
                    let w = &mut reused;
                    let r = guard(|| {
                        w.reset_sentence(s);
                        w.tokenize();
                        read_tokens(w)
                    });
                    st.count("sentences_on_a_reused_worker");
                    if r.as_ref().ok() != Some(ft) {
                        if reported < 3 {
                            st.violation(finding(
                                "reused-worker-result-differs",
                                format!("on a reused worker (after longer sentences) the tokens are {:?}, on a fresh worker {:?}", r.as_ref().map(|t| t.iter().map(|x| (x.surface.clone(), x.total)).collect::<Vec<_>>()), ft.iter().map(|x| (x.surface.clone(), x.total)).collect::<Vec<_>>()),
                                u,
                                opts,
                                s,
                                json!({"note": "reused worker, reverse enumeration order"}),
                            ));
                        }
                        reported += 1;
                        reused = t.new_worker();
                    }
                }
            }
        }
    })
}

/// Character-table sub-check of C03: every probe character's info equals the reference.
fn char_table(universes: &[Universe], kf: &[KnownFinding], st: &mut Stats) {
    for u in universes {
        let (dict, rd) = match u.build() {
            Ok(x) => x,
            Err(e) => {
                eprintln!("MACHINERY: universe {} does not build: {e}", u.name);
                std::process::exit(2);
            }
        };
        let mut probes: Vec<u32> = vec![0, 1, 0x1F, 0x20, 0x21, 0xFFFF, 0xFFFE, 0x10000, 0x1F600, 0x10FFFF, 0x3000, 0xD7FF, 0xE000];
        for (lo, hi, _) in &rd.ranges {
            for d in [-1i64, 0, 1] {
                for b in [*lo, *hi] {
                    let v = i64::from(b) + d;
                    if (0..=0x10FFFF).contains(&v) {
                        probes.push(v as u32);
                    }
                    // astral characters sharing the low 16 bits of a range bound
                    for plane in [0x1_0000i64, 0x2_0000, 0x10_0000] {
                        if (0..=0xFFFF).contains(&v) {
                            probes.push((v + plane) as u32);
                        }
                    }
                }
            }
        }
        probes.sort();
        probes.dedup();
        for cp in probes {
            let Some(c) = char::from_u32(cp) else { continue };
            st.states += 1;
            st.transitions += 1;
            st.count("char_table_probes");
            let (set, prim) = rd.info(c);
            let cat = &rd.cats[prim];
            let exp = (set, prim as u32, cat.invoke, cat.group, cat.length);
            let got = dict.verif_char_info(c);
            st.outcome(&(&u.name, cp, got));
            if got != exp {
                let mut q = rd.clone();
                q.astral_takes_nul = true;
                let (s2, p2) = q.info(c);
                let c2 = &q.cats[p2];
                if cp > 0xFFFF && got == (s2, p2 as u32, c2.invoke, c2.group, c2.length) && is_open(kf, "C03", "K2") {
                    st.known("K2", "characters above U+FFFF take the category of U+0000 when a char.def range covers U+0000");
                    st.count("k2_explained");
                    continue;
                }
                st.violation(Finding {
                    class: "char-info-differs".into(),
                    what: format!("U+{cp:04X}: char info {:?} but char.def says {:?} [universe {}]", got, exp, u.name),
                    replay: json!({"kind": "char_info", "dictionary": u.describe(), "codepoint": cp, "expected": format!("{exp:?}"), "observed": format!("{got:?}")}),
                });
            }
        }
        let names = dict.verif_categories();
        let exp: Vec<String> = rd.cats.iter().map(|c| c.name.clone()).collect();
        if names != exp {
            st.violation(Finding {
                class: "category-names-differ".into(),
                what: format!("category table {:?} != {:?}", names, exp),
                replay: json!({"kind": "char_info", "dictionary": u.describe()}),
            });
        }
    }
}

pub fn run(which: Which, tier: Tier) -> i32 {
    let prop = match which {
        Which::C01 => "C01",
        Which::C02 => "C02",
        Which::C03 => "C03",
    };
    let mut rep = Report::new(prop, tier);
    let kf = load_known_findings();
    let mut universes = vec![];
    let max_len;
    match which {
        Which::C01 => {
            universes.extend(u_unk(tier));
            universes.extend(u_lex(tier));
            universes.extend(u_nul(tier));
            universes.extend(u_k1(tier));
            universes.extend(u_big(tier));
            universes.extend(u_single(tier));
            max_len = tier.pick(4, 6);
        }
        Which::C02 => {
            universes.extend(u_lex(tier));
            let mut uu = u_unk(tier);
            // a slice of the unknown-word universe: group/length interplay produces many paths
            uu.retain(|u| u.name.contains("mult2") && u.name.contains("a+ab"));
            universes.extend(uu);
            universes.extend(u_big(tier));
            universes.extend(u_single(tier));
            max_len = tier.pick(5, 6);
        }
        Which::C03 => {
            universes.extend(u_unk(tier));
            universes.extend(u_nul(tier));
            universes.extend(u_k1(tier));
            let mut ul = u_lex(tier);
            ul.retain(|u| u.name.contains("matrix3x3s1"));
            universes.extend(ul);
            universes.extend(u_big(tier));
            max_len = tier.pick(4, 6);
        }
    }
    if tier == Tier::Quick && which != Which::C02 {
        // quick tier: half of the option settings per dictionary (both ignore_space values stay)
        for u in universes.iter_mut() {
            if u.opts.len() == 8 {
                u.opts = vec![u.opts[0], u.opts[3], u.opts[4], u.opts[7]];
            }
        }
    }
    rep.rule = format!(
        "state = (dictionary of a finite family, option setting, sentence); successor = append one character of the universe's alphabet; every sentence of length <= {max_len} is tokenized by the real code on a fresh worker and compared with the reference; for C01/C02 every sentence is also tokenized on one reused worker in enumeration order and on another in reverse order, where it must give the same tokens; for C01 every second dictionary is also configured through a detour of option calls (opposite values first / other order and twice / on-off-final) and must tokenize identically; around every dictionary two neighbour instances (a twin with its categories declared in another order, and the next dictionary of the family) are built and used in the same thread, one before it is built and one after; distinct = distinct (dictionary, options, token sequence) outcomes"
    );
    rep.bounds = json!({"max_sentence_len": max_len, "universes": universes.len(), "option_settings_per_universe": universes.iter().map(|u| u.opts.len()).max()});
    rep.assumptions = vec![
        "crawdad, bincode, csv-core trusted as dependencies".into(),
        "sentences longer than the bound and dictionaries outside the finite family are not covered".into(),
    ];
    let plan = Plan {
        which,
        universes,
        max_len,
    };
    let mut st = explore(&plan, &kf, prop);
    if which == Which::C03 {
        let mut us = u_unk(Tier::Quick);
        us.truncate(0);
        // one dictionary per layout is enough for the table (the table does not depend on T's flags),
        // plus the U+0000 layouts
        let mut seen = std::collections::BTreeSet::new();
        for u in plan.universes.iter() {
            let key = format!("{:?}", u.dict.ranges);
            if seen.insert(key) {
                us.push(u.clone());
            }
        }
        char_table(&us, &kf, &mut st);
    }
    let required: Vec<&str> = match which {
        Which::C01 => vec![
            "tokens_system",
            "tokens_user",
            "tokens_unknown",
            "sentences_with_astral_char",
            "sentences_with_multibyte_char",
            "gaps_leading",
            "gaps_inner",
            "gaps_trailing",
            "rule_fallback_single_char",
            "sentences_longer_than_32_chars",
            "sentences_with_more_than_256_nodes_at_a_boundary",
            "sentences_on_a_reused_worker",
            "sentences_on_a_tokenizer_configured_through_a_detour",
        ],
        Which::C02 => vec![
            "sentences_with_more_than_16_nodes_at_a_boundary",
            "sentences_longer_than_32_chars",
            "c02_sentences_with_2+_paths",
            "c02_sentences_with_exact_ties",
            "c02_sentences_where_eos_connection_changes_argmin",
            "c02_agrees_with_reference_candidates",
            "sentences_on_a_reused_worker",
        ],
        Which::C03 => vec![
            "rule_invoke_suppressed",
            "rule_group_emitted",
            "rule_group_omitted_by_max_grouping",
            "rule_prefixes_truncated_by_run",
            "rule_runlen_prefix_skipped",
            "rule_fallback_single_char",
            "rule_space_skip",
            "rule_trailing_gap",
            "sentences_with_lexicon_homographs",
            "char_table_probes",
            "sentences_longer_than_32_chars",
            "sentences_with_more_than_256_nodes_at_a_boundary",
        ],
    };
    rep.finish(st, &required)
}
