//! C13: reordering statistics always yield a valid, frequency-ordered mapping.
use serde_json::json;

use crate::common::*;
use crate::real::*;
use crate::refmodel::*;
use crate::universe::*;

// "ba  ": with ignore_space and a lexicon word "a " the word ends past the boundary EOS attaches to
const SENTS: [&str; 8] = ["", "a", "ab c", "abc ", " ", "cab", "abcdefghijklmnopqrstuvwxyzzz", "ba  "];

/// Per-sentence reference counts: (left id counts, right id counts), one count per
/// (predecessor node, node) pair of the reference lattice plus the EOS pairs.
fn ref_counts(rd: &RefDict, s: &str, opts: Opts, order: &[usize]) -> Option<(Vec<u64>, Vec<u64>)> {
    let mut l = vec![0u64; rd.nl];
    let mut r = vec![0u64; rd.nr];
    if s.is_empty() {
        return Some((l, r));
    }
    let a = rd.analyze_with(s, opts, false, order);
    let eos_from = a.eos_from?;
    let preds_of = |b: usize| -> Vec<u16> {
        let mut v: Vec<u16> = a.nodes.iter().filter(|n| n.end == b).map(|n| n.right).collect();
        if b == 0 {
            v.push(0);
        }
        v
    };
    for n in &a.nodes {
        for pr in preds_of(n.start_node) {
            l[usize::from(n.left)] += 1;
            r[usize::from(pr)] += 1;
        }
    }
    for pr in preds_of(eos_from) {
        l[0] += 1;
        r[usize::from(pr)] += 1;
    }
    Some((l, r))
}

fn expected_probs(counts: &[u64]) -> Vec<(usize, f64)> {
    let total: u64 = counts.iter().sum();
    let mut v: Vec<(usize, u64)> = counts.iter().cloned().enumerate().skip(1).collect();
    v.sort_by(|a, b| b.1.cmp(&a.1).then(a.0.cmp(&b.0)));
    v.into_iter().map(|(i, c)| (i, c as f64 / total as f64)).collect()
}

fn same_probs(a: &[(usize, f64)], b: &[(usize, f64)]) -> bool {
    a.len() == b.len()
        && a.iter().zip(b).all(|(x, y)| x.0 == y.0 && ((x.1.is_nan() && y.1.is_nan()) || x.1 == y.1))
}

pub fn run(tier: Tier) -> i32 {
    let mut rep = Report::new("C13", tier);
    let mut us = u_lex(tier);
    us.retain(|u| {
        (u.name.contains("matrix3x3s1") || u.name.contains("matrix3x4s2") || u.name.contains("RawK3") || u.name.contains("DualK9x1/5x3")) && !u.name.contains("extreme") && !u.name.contains("multibyte")
    });
    let mut big = crate::universe::u_big(tier);
    big.retain(|u| u.name.contains("big/conn-ids"));
    us.extend(big);
    let depth = tier.pick(3, 5);
    let seqs = all_seqs(SENTS.len(), depth);
    let tasks: Vec<(usize, bool)> = (0..us.len()).flat_map(|i| [(i, false), (i, true)]).collect();
    let st = par_explore(tasks.len(), |ti, st| {
        let (ui, ig) = tasks[ti];
        let u = &us[ui];
        let opts = Opts { ignore_space: ig, mgl: 0 };
        let (d, rd) = u.build().unwrap_or_else(|e| {
            println!("MACHINERY: {} does not build: {e}", u.name);
            std::process::exit(2)
        });
        let t = make_tokenizer(d, opts).unwrap();
        let order = rd.unk_order();
        let per: Vec<Option<(Vec<u64>, Vec<u64>)>> = SENTS.iter().map(|s| ref_counts(&rd, s, opts, &order)).collect();
        // unmapped tokens for the C06-style check after mapping
        let probe = all_strings(&['a', 'b', 'c', ' '], 4);
        let base_tokens: Vec<_> = probe.iter().map(|s| run_fresh(&t, s, false).map(|r| r.tokens)).collect();
        for seq in &seqs {
            st.states += 1;
            if !seq.is_empty() {
                st.transitions += 1;
            }
            let case = || {
                json!({"kind": "reorder", "dictionary": u.describe(), "ignore_space": ig,
                    "sentences": seq.iter().map(|&i| SENTS[i]).collect::<Vec<_>>()})
            };
            let mut el = vec![0u64; rd.nl];
            let mut er = vec![0u64; rd.nr];
            for &i in seq {
                let (l, r) = per[i].as_ref().expect("reference lattice reachable");
                for (a, b) in el.iter_mut().zip(l) {
                    *a += b;
                }
                for (a, b) in er.iter_mut().zip(r) {
                    *a += b;
                }
            }
            if seq.iter().any(|&i| SENTS[i].is_empty()) {
                st.count("sequences_with_empty_line");
                if seq.first().map_or(false, |&i| SENTS[i].is_empty()) {
                    st.count("sequences_starting_with_empty_line");
                }
            }
            if seq.is_empty() {
                st.count("sequences_with_no_lines");
            }
            if ig && seq.iter().any(|&i| SENTS[i].ends_with(' ') && SENTS[i].trim() != "") {
                st.count("sequences_with_trailing_space_under_ignore_space");
            }
            let res = guard(|| {
                let mut w = t.new_worker();
                w.init_connid_counter();
                for &i in seq {
                    w.reset_sentence(SENTS[i]);
                    w.tokenize();
                    w.update_connid_counts();
                }
                w.compute_connid_probs()
            });
            let (lp, rp) = match res {
                Ok(x) => x,
                Err(p) => {
                    st.violation(Finding {
                        class: format!("reorder-panic@{}", panic_site(&p)),
                        what: format!("reset/tokenize/update protocol panicked: {p} [{} ignore_space={ig} lines {:?}]", u.name, seq.iter().map(|&i| SENTS[i]).collect::<Vec<_>>()),
                        replay: case(),
                    });
                    continue;
                }
            };
            st.outcome(&(ui, ig, format!("{:?}{:?}", lp, rp)));
            let xl = expected_probs(&el);
            let xr = expected_probs(&er);
            if !same_probs(&lp, &xl) || !same_probs(&rp, &xr) {
                let side = if !same_probs(&lp, &xl) { "left" } else { "right" };
                let (got, want) = if side == "left" { (&lp, &xl) } else { (&rp, &xr) };
                let same_ids = {
                    let mut a: Vec<usize> = got.iter().map(|x| x.0).collect();
                    let mut b: Vec<usize> = want.iter().map(|x| x.0).collect();
                    a.sort();
                    b.sort();
                    a == b
                };
                st.violation(Finding {
                    class: if same_ids { format!("{side}-id-frequencies-differ") } else { format!("{side}-id-list-invalid") },
                    what: format!(
                        "{side} id statistics {:?} but the reference lattice counts give {:?} [{} ignore_space={ig} lines {:?}]",
                        got,
                        want,
                        u.name,
                        seq.iter().map(|&i| SENTS[i]).collect::<Vec<_>>()
                    ),
                    replay: case(),
                });
                continue;
            }
            // init_connid_counter() again in the middle starts the statistics afresh: only the lines
            // after it count
            if seq.len() >= 2 {
                for k in 1..seq.len() {
                    let mut sl = vec![0u64; rd.nl];
                    let mut sr = vec![0u64; rd.nr];
                    for &i in &seq[k..] {
                        let (l, r) = per[i].as_ref().unwrap();
                        for (a, b) in sl.iter_mut().zip(l) {
                            *a += b;
                        }
                        for (a, b) in sr.iter_mut().zip(r) {
                            *a += b;
                        }
                    }
                    let res2 = guard(|| {
                        let mut w = t.new_worker();
                        w.init_connid_counter();
                        for (j, &i) in seq.iter().enumerate() {
                            if j == k {
                                w.init_connid_counter();
                            }
                            w.reset_sentence(SENTS[i]);
                            w.tokenize();
                            w.update_connid_counts();
                        }
                        w.compute_connid_probs()
                    });
                    st.count("sequences_with_a_second_init");
                    let ok = match &res2 {
                        Ok((l2, r2)) => same_probs(l2, &expected_probs(&sl)) && same_probs(r2, &expected_probs(&sr)),
                        Err(_) => false,
                    };
                    if !ok {
                        st.violation(Finding {
                            class: "statistics-survive-a-second-init".into(),
                            what: format!("init_connid_counter() again before line {k}: statistics {:?}, the lines after it give {:?} / {:?} [{} ignore_space={ig} lines {:?}]", res2, expected_probs(&sl), expected_probs(&sr), u.name, seq.iter().map(|&i| SENTS[i]).collect::<Vec<_>>()),
                            replay: case(),
                        });
                        break;
                    }
                }
            }
            // the id lists are accepted by the map tool's entry point and the mapped dictionary
            // tokenizes identically
            if seq.len() <= 2 || st.states % 5 == 0 {
                let (d2, _) = u.build().unwrap();
                if u.mapping.is_some() {
                    st.count("statistics_on_an_already_mapped_dictionary");
                }
                let lm: Vec<u16> = lp.iter().map(|x| x.0 as u16).collect();
                let rm: Vec<u16> = rp.iter().map(|x| x.0 as u16).collect();
                match guard(move || d2.map_connection_ids_from_iter(lm, rm)) {
                    Ok(Ok(dm)) => {
                        st.count("mappings_fed_to_map_connection_ids");
                        let tm = make_tokenizer(dm, opts).unwrap();
                        for (s, base) in probe.iter().zip(&base_tokens) {
                            let got = run_fresh(&tm, s, false).map(|r| r.tokens);
                            let same = match (&got, base) {
                                (Ok(g), Ok(b)) => {
                                    g.len() == b.len()
                                        && g.iter().zip(b).all(|(x, y)| (&x.surface, &x.feature, x.cost, x.total, x.lex, x.cs, x.ce) == (&y.surface, &y.feature, y.cost, y.total, y.lex, y.cs, y.ce))
                                }
                                _ => false,
                            };
                            if !same {
                                st.violation(Finding {
                                    class: "reordered-dictionary-tokenizes-differently".into(),
                                    what: format!("after mapping with the produced statistics, {:?} tokenizes differently [{}]", s, u.name),
                                    replay: case(),
                                });
                                break;
                            }
                        }
                    }
                    other => {
                        st.violation(Finding {
                            class: "reorder-output-rejected-by-map".into(),
                            what: format!("the produced id lists are not accepted by map_connection_ids_from_iter: {} [{}]", match other { Err(p) => p, Ok(Err(e)) => e.to_string(), _ => String::new() }, u.name),
                            replay: case(),
                        });
                    }
                }
            }
            if st.states % 499 == 0 {
                st.sample(json!({"universe": u.name, "ignore_space": ig, "lines": seq.iter().map(|&i| SENTS[i]).collect::<Vec<_>>(), "lmap": lp.iter().map(|x| x.0).collect::<Vec<_>>()}));
            }
        }
    });
    rep.rule = format!("state = (dictionary, ignore_space, sequence of <= {depth} lines from an 8-line set incl. empty and space-only lines and a word reaching into trailing spaces; also with a second init_connid_counter() before each line k) fed through the reorder tool's protocol reset/tokenize/update on one worker; the produced statistics must equal those computed from the reference lattice (one count per (predecessor, node) pair plus EOS), sorted by frequency then id; the id lists are fed to map_connection_ids_from_iter and the mapped dictionary compared on all sentences <= 4 chars; distinct = distinct statistics");
    rep.bounds = json!({"max_lines": depth, "line_set": SENTS, "universes": us.len()});
    rep.finish(
        st,
        &[
            "sequences_with_empty_line",
            "sequences_starting_with_empty_line",
            "sequences_with_no_lines",
            "sequences_with_trailing_space_under_ignore_space",
            "mappings_fed_to_map_connection_ids",
            "statistics_on_an_already_mapped_dictionary",
            "sequences_with_a_second_init",
        ],
    )
}
