//! C06: connection-id remapping never changes tokenization.
//! E2 over {map (menu of 4 permutation pairs), load user lexicon, clear, write->read};
//! differential oracle against the never-mapped twin plus the structural reference for the
//! connection table; all malformed mapping iterators up to length L+1.
use serde_json::json;

use crate::common::*;
use crate::dhist::*;
use crate::refmodel::*;

fn ops_c06(f: &Family) -> Vec<Op> {
    let mut v: Vec<Op> = (0..f.maps.len()).map(Op::Map).collect();
    v.push(Op::LoadUser(0));
    v.push(Op::LoadUser(1));
    v.push(Op::Clear);
    v.push(Op::WriteRead);
    v
}

fn all_perms(n: usize) -> Vec<Vec<u16>> {
    // permutations of 1..n-1
    fn rec(cur: &mut Vec<u16>, used: &mut Vec<bool>, n: usize, out: &mut Vec<Vec<u16>>) {
        if cur.len() == n - 1 {
            out.push(cur.clone());
            return;
        }
        for x in 1..n {
            if !used[x] {
                used[x] = true;
                cur.push(x as u16);
                rec(cur, used, n, out);
                cur.pop();
                used[x] = false;
            }
        }
    }
    let mut out = vec![];
    rec(&mut vec![], &mut vec![false; n], n, &mut out);
    out
}

fn compare_with_twin(
    f: &Family,
    hist: &[Op],
    rs: &RefState,
    mapped: &Obs,
    twin: &Obs,
    sentences: &[String],
    st: &mut Stats,
) {
    let case = || json!({"kind": "dict_history", "case": f.describe(hist)});
    // connection table: cost'(cr[r], cl[l]) == cost(r, l) of the structural reference
    if mapped.dims != (f.base.nr, f.base.nl) {
        st.violation(Finding {
            class: "dims-changed".into(),
            what: format!("connector dimensions {:?} after mapping, expected {:?} [{} {:?}]", mapped.dims, (f.base.nr, f.base.nl), f.name, hist),
            replay: case(),
        });
        return;
    }
    for r in 0..f.base.nr {
        for l in 0..f.base.nl {
            let got = mapped.conn[usize::from(rs.cr[r]) * f.base.nl + usize::from(rs.cl[l])];
            let want = f.base.conn[r * f.base.nl + l];
            if got != want {
                st.violation(Finding {
                    class: "conn-cost-not-permuted".into(),
                    what: format!(
                        "cost'({}, {}) = {got} but the original cost({r}, {l}) = {want} [{} {:?}]",
                        rs.cr[r], rs.cl[l], f.name, hist
                    ),
                    replay: case(),
                });
                return;
            }
        }
    }
    st.add("conn_pairs_compared", (f.base.nr * f.base.nl) as u64);
    for (k, (m, t)) in mapped.tokens.iter().zip(&twin.tokens).enumerate() {
        let s = &sentences[k % sentences.len()];
        let opts = OBS_OPTS[k / sentences.len()];
        match (m, t) {
            (Ok(m), Ok(t)) => {
                let mut ok = m.len() == t.len();
                if ok {
                    for (a, b) in m.iter().zip(t) {
                        if (a.cs, a.ce, a.bs, a.be, &a.surface, &a.feature, a.lex, a.word_id, a.cost, a.total)
                            != (b.cs, b.ce, b.bs, b.be, &b.surface, &b.feature, b.lex, b.word_id, b.cost, b.total)
                            || a.left != rs.cl[usize::from(b.left)]
                            || a.right != rs.cr[usize::from(b.right)]
                        {
                            ok = false;
                        }
                    }
                }
                if !ok {
                    let ids_only = m.len() == t.len()
                        && m.iter().zip(t).all(|(a, b)| (&a.surface, &a.feature, a.cost, a.total) == (&b.surface, &b.feature, b.cost, b.total));
                    st.violation(Finding {
                        class: if ids_only { "mapped-ids-inconsistent".into() } else { "mapped-tokens-differ".into() },
                        what: format!(
                            "sentence {:?} {:?}: mapped dictionary gives {:?}, unmapped twin gives {:?} [{} {:?}]",
                            s,
                            opts,
                            m.iter().map(|t| (t.surface.clone(), t.left, t.right, t.total)).collect::<Vec<_>>(),
                            t.iter().map(|t| (t.surface.clone(), t.left, t.right, t.total)).collect::<Vec<_>>(),
                            f.name,
                            hist
                        ),
                        replay: json!({"kind": "dict_history", "case": f.describe(hist), "sentence": s, "ignore_space": opts.ignore_space, "max_grouping_len": opts.mgl}),
                    });
                    return;
                }
            }
            (Err(p), _) => {
                st.violation(Finding {
                    class: format!("mapped-tokenize-panic@{}", panic_site(p)),
                    what: format!("tokenize on the mapped dictionary panicked: {p} [sentence {:?} {} {:?}]", s, f.name, hist),
                    replay: json!({"kind": "dict_history", "case": f.describe(hist), "sentence": s}),
                });
                return;
            }
            (_, Err(p)) => {
                println!("MACHINERY: twin tokenization panicked: {p}");
                std::process::exit(2);
            }
        }
    }
}

fn malformed(f: &Family, st: &mut Stats, tier: Tier) {
    // all sequences over {0..n} of length 0..n+1 (n = number of ids on that side)
    let valid_left: Vec<u16> = (1..f.base.nl as u16).collect();
    let valid_right: Vec<u16> = (1..f.base.nr as u16).collect();
    let seqs_for = |n: usize| -> Vec<Vec<u16>> {
        let mut alphabet: Vec<u16> = (0..=n as u16).collect();
        if tier == Tier::Thorough {
            alphabet.push(u16::MAX);
        }
        // all sequences up to length n + 1 (capped at 5 for the larger side of non-square spaces)
        all_seqs(alphabet.len(), (n + 1).min(5)).into_iter().map(|s| s.into_iter().map(|i| alphabet[i]).collect()).collect()
    };
    let seqs_left = seqs_for(f.base.nl);
    let seqs_right = seqs_for(f.base.nr);
    // contexts: fresh; after a valid map; with user lexicon
    let contexts: Vec<Vec<Op>> = vec![vec![], vec![Op::Map(0)], vec![Op::LoadUser(0)]];
    let tasks: Vec<(usize, bool)> = (0..contexts.len()).flat_map(|c| [(c, false), (c, true)]).collect();
    let res = par_explore(tasks.len(), |ti, st| {
        let (ci, right_side) = tasks[ti];
        for m in if right_side { &seqs_right } else { &seqs_left } {
            st.states += 1;
            st.transitions += 1;
            let d = match exec_history(f, &contexts[ci]) {
                Ok(d) => d,
                Err(e) => {
                    // the context consists of valid operations only (a permutation sized by the
                    // definition files, a valid user lexicon): its failure is a verdict
                    st.violation(Finding {
                        class: "valid-op-rejected".into(),
                        what: format!("the valid context history {:?} fails on family {} at step {}: {}", contexts[ci], f.name, e.0, match &e.1 { RealStep::Err(m) => format!("Err {m}"), RealStep::Panic(m) => format!("panic {m}"), RealStep::Ok(_) => String::new() }),
                        replay: json!({"kind": "dictionary_history", "case": f.describe(&contexts[ci])}),
                    });
                    return;
                }
            };
            let n_side = if right_side { f.base.nr } else { f.base.nl };
            let expect_ok = valid_mapping(m, n_side);
            let (l, r) = if right_side { (valid_left.clone(), m.clone()) } else { (m.clone(), valid_right.clone()) };
            let res = guard(move || d.map_connection_ids_from_iter(l, r));
            let class = match &res {
                Err(p) => format!("Panic@{}", panic_site(p)),
                Ok(Err(_)) => "Err".to_string(),
                Ok(Ok(_)) => "Ok".to_string(),
            };
            st.outcome(&(ci, right_side, m.len(), &class));
            if expect_ok {
                st.count("mapping_iterators_valid");
            } else {
                st.count("mapping_iterators_malformed");
            }
            let good = if expect_ok { class == "Ok" } else { class == "Err" };
            if !good {
                let side = if right_side { "right" } else { "left" };
                let cls = if class.starts_with("Panic") {
                    format!("malformed-mapping-{class}")
                } else if expect_ok {
                    "valid-mapping-rejected".to_string()
                } else {
                    "malformed-mapping-accepted".to_string()
                };
                st.violation(Finding {
                    class: cls,
                    what: format!(
                        "map_connection_ids_from_iter with {side} mapping {:?} ({} ids on that side, context {:?}): expected {}, got {class}",
                        m,
                        n_side,
                        contexts[ci],
                        if expect_ok { "Ok" } else { "Err" }
                    ),
                    replay: json!({"kind": "mapping", "case": f.describe(&contexts[ci]), "side": side, "mapping": m}),
                });
            }
        }
    });
    st.merge(res);
}

pub fn run(tier: Tier) -> i32 {
    let mut rep = Report::new("C06", tier);
    let fams = family_d(tier);
    let depth = tier.pick(3, 4);
    let sent_len = tier.pick(4, 5);
    let mut tasks = vec![];
    for (fi, f) in fams.iter().enumerate() {
        let ops = ops_c06(f);
        for h in all_seqs(ops.len(), depth) {
            let h: Vec<Op> = h.into_iter().map(|i| ops[i].clone()).collect();
            if h.iter().any(|o| matches!(o, Op::Map(_))) {
                tasks.push((fi, h));
            }
        }
    }
    let mut st = par_explore(tasks.len(), |ti, st| {
        let (fi, h) = &tasks[ti];
        let f = &fams[*fi];
        let sentences = all_strings(&f.alphabet, sent_len);
        st.states += 1;
        st.transitions += 1;
        let mut rs = RefState::new(&f.base);
        for op in h {
            if rs.apply(f, op).is_err() {
                println!("MACHINERY: reference rejects a menu op");
                std::process::exit(2);
            }
        }
        let d = match exec_history(f, h) {
            Ok(d) => d,
            Err((k, step)) => {
                let c = match step {
                    RealStep::Panic(p) => format!("Panic {p}"),
                    RealStep::Err(e) => format!("Err {e}"),
                    RealStep::Ok(_) => unreachable!(),
                };
                st.violation(Finding {
                    class: "valid-op-rejected".into(),
                    what: format!("op {k} of a valid history failed: {c} [{} {:?}]", f.name, h),
                    replay: json!({"kind": "dict_history", "case": f.describe(h)}),
                });
                return;
            }
        };
        let twin_hist: Vec<Op> = h.iter().filter(|o| !matches!(o, Op::Map(_))).cloned().collect();
        let twin = exec_history(f, &twin_hist).unwrap_or_else(|_| {
            println!("MACHINERY: twin history failed");
            std::process::exit(2)
        });
        let om = observe(d, &sentences);
        let ot = observe(twin, &sentences);
        st.outcome(&(fi, &om));
        let maps = h.iter().filter(|o| matches!(o, Op::Map(_))).count();
        if maps >= 2 {
            st.count("histories_with_repeated_mapping");
            if let Some(last_map) = h.iter().rposition(|o| matches!(o, Op::Map(_))) {
                if h[last_map..].iter().any(|o| matches!(o, Op::LoadUser(_))) {
                    st.count("histories_user_lexicon_loaded_after_repeated_mapping");
                }
            }
        }
        if h.iter().position(|o| matches!(o, Op::LoadUser(_))) < h.iter().position(|o| matches!(o, Op::Map(_))) && h.iter().any(|o| matches!(o, Op::LoadUser(_))) {
            st.count("histories_user_lexicon_loaded_before_mapping");
        }
        if h.iter().any(|o| matches!(o, Op::WriteRead)) {
            st.count("histories_with_roundtrip");
        }
        if rs.cl.iter().enumerate().any(|(i, &x)| usize::from(x) != i) {
            st.count("states_with_nonidentity_composed_left_map");
        }
        compare_with_twin(f, h, &rs, &om, &ot, &sentences, st);
        if st.states % 211 == 0 {
            st.sample(json!({"family": f.name, "history": format!("{h:?}"), "composed_left": rs.cl, "composed_right": rs.cr}));
        }
    });
    // every permutation pair on one map (all (L-1)! x (R-1)!)
    let mut ptasks = vec![];
    for (fi, f) in fams.iter().enumerate() {
        for lp in all_perms(f.base.nl) {
            for rp in all_perms(f.base.nr) {
                ptasks.push((fi, lp.clone(), rp));
            }
        }
    }
    let res = par_explore(ptasks.len(), |ti, st| {
        let (fi, lp, rp) = &ptasks[ti];
        let mut f = fams[*fi].clone();
        f.maps = vec![(lp.clone(), rp.clone())];
        let sentences = all_strings(&f.alphabet, sent_len.min(4));
        for h in [vec![Op::Map(0)], vec![Op::LoadUser(0), Op::Map(0)], vec![Op::Map(0), Op::LoadUser(1)]] {
            st.states += 1;
            st.transitions += 1;
            st.count("single_map_all_permutation_pairs");
            let mut rs = RefState::new(&f.base);
            for op in &h {
                rs.apply(&f, op).unwrap();
            }
            let Ok(d) = exec_history(&f, &h) else {
                st.violation(Finding {
                    class: "valid-op-rejected".into(),
                    what: format!("valid mapping {:?}/{:?} rejected [{}]", lp, rp, f.name),
                    replay: json!({"kind": "dict_history", "case": f.describe(&h)}),
                });
                continue;
            };
            let twin_hist: Vec<Op> = h.iter().filter(|o| !matches!(o, Op::Map(_))).cloned().collect();
            let twin = exec_history(&f, &twin_hist).unwrap_or_else(|_| std::process::exit(2));
            let om = observe(d, &sentences);
            let ot = observe(twin, &sentences);
            st.outcome(&(fi, &om));
            compare_with_twin(&f, &h, &rs, &om, &ot, &sentences, st);
        }
    });
    st.merge(res);
    // many connection ids: a few permutations, the complete table
    {
        let mut big = crate::universe::u_big(tier);
        big.retain(|u| u.name.contains("big/conn-ids") && u.mapping.is_none());
        for u in &big {
            let (nr, nl) = (u.dict.nr, u.dict.nl);
            let perms: Vec<(Vec<u16>, Vec<u16>)> = vec![
                ((1..nl as u16).collect(), (1..nr as u16).collect()),
                ((1..nl as u16).rev().collect(), (1..nr as u16).rev().collect()),
                ((1..nl as u16).map(|i| if usize::from(i) + 1 < nl { i + 1 } else { 1 }).collect(), (1..nr as u16).map(|i| if i > 1 { i - 1 } else { (nr - 1) as u16 }).collect()),
            ];
            for (lm, rm) in perms {
                st.states += 1;
                st.transitions += 1;
                st.count("many_id_dictionaries_mapped");
                let Ok((d, _)) = u.build() else { continue };
                let rd = u.dict.mapped(&lm, &rm);
                let (l2, r2) = (lm.clone(), rm.clone());
                match guard(move || d.map_connection_ids_from_iter(l2, r2)) {
                    Ok(Ok(dm)) => {
                        let mut bad = None;
                        for r in 0..nr {
                            for l in 0..nl {
                                let got = dm.verif_conn_cost(r as u16, l as u16);
                                if i64::from(got) != rd.conn(r as u16, l as u16) && bad.is_none() {
                                    bad = Some((r, l, got, rd.conn(r as u16, l as u16)));
                                }
                            }
                        }
                        st.add("conn_pairs_compared", (nr * nl) as u64);
                        if let Some((r, l, got, want)) = bad {
                            st.violation(Finding {
                                class: "conn-cost-not-permuted".into(),
                                what: format!("{} mapped with a permutation of {} x {} ids: cost'({r},{l}) = {got}, expected {want}", u.name, nr, nl),
                                replay: json!({"kind": "mapping", "dictionary": u.describe(), "lmap": lm, "rmap": rm}),
                            });
                        }
                    }
                    other => st.violation(Finding {
                        class: "valid-op-rejected".into(),
                        what: format!("valid mapping of {} rejected: {:?}", u.name, other.map(|r| r.map(|_| ()).map_err(|e| e.to_string()))),
                        replay: json!({"kind": "mapping", "dictionary": u.describe()}),
                    }),
                }
            }
        }
    }
    for f in &fams {
        malformed(f, &mut st, tier);
    }
    rep.rule = format!("state = (dictionary family, history of depth <= {depth} with at least one map over {{map x4 (3-cycles, transpositions, identity), load user lexicon x2, clear, write->read}}); in every state the mapped dictionary is compared with the never-mapped twin that saw the same user-lexicon ops (all sentences of length <= {sent_len}, two option settings; all token fields, ids through the composed permutation) and its full connection table with the structural reference; plus all (L-1)!(R-1)! permutation pairs for one map; plus every mapping iterator over {{0..n}} of length 0..n+1 on each side in three contexts; distinct = distinct observation tables / (context, length, outcome) classes");
    rep.bounds = json!({"history_depth": depth, "sentence_len": sent_len, "ids_per_side": 4, "malformed_iterator_len": 5});
    rep.finish(
        st,
        &[
            "histories_with_repeated_mapping",
            "histories_user_lexicon_loaded_after_repeated_mapping",
            "histories_user_lexicon_loaded_before_mapping",
            "histories_with_roundtrip",
            "states_with_nonidentity_composed_left_map",
            "mapping_iterators_valid",
            "mapping_iterators_malformed",
            "single_map_all_permutation_pairs",
            "many_id_dictionaries_mapped",
        ],
    )
}
