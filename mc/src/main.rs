//! vmc — bounded exhaustive exploration of vibrato against reference models.
mod common;
mod dhist;
mod props;
mod real;
mod refmodel;
mod replay;
mod sched;
mod universe;

use common::Tier;

fn usage() -> ! {
    eprintln!("usage: vmc check <C01..C20> <quick|thorough> | vmc replay <file>");
    std::process::exit(2);
}

fn main() {
    common::install_panic_hook();
    let args: Vec<String> = std::env::args().collect();
    if args.len() < 3 && !(args.len() == 3) {
        usage();
    }
    match args[1].as_str() {
        "check" => {
            let tier = match args.get(3).map(|s| s.as_str()).or(std::env::var("VERIF_TIER").ok().as_deref()) {
                Some("thorough") => Tier::Thorough,
                _ => Tier::Quick,
            };
            let code = match args[2].as_str() {
                "C01" => props::tok::run(props::tok::Which::C01, tier),
                "C02" => props::tok::run(props::tok::Which::C02, tier),
                "C03" => props::tok::run(props::tok::Which::C03, tier),
                "C04" => props::c04::run(tier),
                "C05" => props::c05::run(tier),
                "C06" => props::c06::run(tier),
                "C07" => props::c07::run(tier),
                "C08" => props::c08::run(tier),
                "C09" => props::c09::run(tier),
                "C10" => props::c10::run(tier),
                "C11" => props::c11::run(tier),
                "C12" => props::c12::run(tier),
                "C13" => props::c13::run(tier),
                "C14" => props::train::run_c14(tier),
                "C15" => props::train::run_c15(tier),
                "C16" => props::train::run_c16(tier),
                "C17" => props::c17::run(tier),
                "C18" => props::c18::run(tier),
                "C19" => props::c19::run(tier),
                "C20" => props::c20::run(tier),
                _ => usage(),
            };
            std::process::exit(code);
        }
        "c05-export" => {
            let depth = args.get(3).and_then(|s| s.parse().ok()).unwrap_or(1);
            std::process::exit(props::c05::export(&args[2], depth));
        }
        "replay" => std::process::exit(replay::run(&args[2])),
        "c07-core" => {
            let tier = if args[2] == "thorough" { Tier::Thorough } else { Tier::Quick };
            std::process::exit(props::c07::core_cli(tier));
        }
        "c05-import" => std::process::exit(props::c05::import(&args[2])),
        _ => usage(),
    }
}
