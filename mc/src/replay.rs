//! `vmc replay <file>`: re-executes one recorded case against the real code, without any explorer.
use serde_json::Value;
use vibrato::{SystemDictionaryBuilder, Tokenizer};

use crate::common::guard;
use crate::real::*;
use crate::refmodel::Opts;

fn s<'a>(v: &'a Value, k: &str) -> Option<&'a str> {
    v.get(k).and_then(|x| x.as_str())
}

fn build_from_files(files: &Value, dual: bool) -> Result<vibrato::Dictionary, String> {
    let lex = s(files, "lex.csv").unwrap_or("");
    let chr = s(files, "char.def").unwrap_or("");
    let unk = s(files, "unk.def").unwrap_or("");
    let r = guard(|| {
        let d = if let Some(m) = s(files, "matrix.def") {
            SystemDictionaryBuilder::from_readers(lex.as_bytes(), m.as_bytes(), chr.as_bytes(), unk.as_bytes())
        } else {
            let connector = s(files, "connector").unwrap_or("");
            let dual = dual || connector == "Dual" || files.get("dual_connector").and_then(|x| x.as_bool()).unwrap_or(false);
            SystemDictionaryBuilder::from_readers_with_bigram_info(
                lex.as_bytes(),
                s(files, "bigram.right").unwrap_or("").as_bytes(),
                s(files, "bigram.left").unwrap_or("").as_bytes(),
                s(files, "bigram.cost").unwrap_or("").as_bytes(),
                chr.as_bytes(),
                unk.as_bytes(),
                dual,
            )
        }?;
        match s(files, "user.csv") {
            Some(u) => d.reset_user_lexicon_from_reader(Some(u.as_bytes())),
            None => Ok(d),
        }
    });
    match r {
        Err(p) => Err(format!("PANIC {p}")),
        Ok(Err(e)) => Err(format!("Err {e}")),
        Ok(Ok(d)) => Ok(d),
    }
}

pub fn run(path: &str) -> i32 {
    let txt = match std::fs::read_to_string(path) {
        Ok(t) => t,
        Err(e) => {
            println!("cannot read {path}: {e}");
            return 2;
        }
    };
    let v: Value = serde_json::from_str(&txt).unwrap();
    println!("property: {}\nclass: {}\nwhat: {}", v["property"], v["class"], v["what"]);
    let case = &v["case"];
    let kind = s(case, "kind").unwrap_or("");
    match kind {
        "tokenize" | "tokenize_pair" => {
            let files = &case["dictionary"]["files"];
            let mut d = match build_from_files(files, false) {
                Ok(d) => d,
                Err(e) => {
                    println!("build: {e}");
                    return 1;
                }
            };
            if let Some(m) = case["dictionary"].get("mapping").filter(|m| !m.is_null()) {
                let l: Vec<u16> = m["lmap"].as_array().unwrap().iter().map(|x| x.as_u64().unwrap() as u16).collect();
                let r: Vec<u16> = m["rmap"].as_array().unwrap().iter().map(|x| x.as_u64().unwrap() as u16).collect();
                d = d.map_connection_ids_from_iter(l, r).unwrap();
            }
            let opts = Opts {
                ignore_space: case["ignore_space"].as_bool().unwrap_or(false),
                mgl: case["max_grouping_len"].as_u64().unwrap_or(0) as usize,
            };
            let t: Tokenizer = make_tokenizer(d, opts).unwrap();
            for key in ["sentence", "other_sentence"] {
                if let Some(sent) = s(case, key) {
                    match run_fresh(&t, sent, true) {
                        Ok(r) => {
                            println!("{key} {:?} ->", sent);
                            for tk in &r.tokens {
                                println!("  {}", tk.to_json());
                            }
                            println!("  lattice nodes: {:?}", r.nodes);
                            println!("  eos: {:?}", r.eos);
                        }
                        Err(p) => println!("{key} {:?} -> PANIC {p}", sent),
                    }
                }
            }
            0
        }
        "bigram_connector" => {
            let files = serde_json::json!({"lex.csv": "a,1,1,0,f\n", "char.def": "DEFAULT 0 1 0\n", "unk.def": "DEFAULT,0,0,0,u\n",
                "bigram.right": case["bigram.right"], "bigram.left": case["bigram.left"], "bigram.cost": case["bigram.cost"]});
            match build_from_files(&files, case["dual"].as_bool().unwrap_or(false)) {
                Ok(d) => {
                    let (nr, nl) = d.verif_conn_dims();
                    for r in 0..nr {
                        for l in 0..nl {
                            println!("cost({r},{l}) = {:?}", guard(|| d.verif_conn_cost(r as u16, l as u16)));
                        }
                    }
                    0
                }
                Err(e) => {
                    println!("build: {e}");
                    1
                }
            }
        }
        "build" => {
            match build_from_files(&case["files"], false) {
                Ok(_) => println!("build: Ok"),
                Err(e) => println!("build: {e}"),
            }
            0
        }
        _ => {
            println!("replay of kind {kind:?}: the file contains the rendered inputs and the operation list; re-run the named check to reproduce");
            println!("{}", serde_json::to_string_pretty(case).unwrap());
            0
        }
    }
}
