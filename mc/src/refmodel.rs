//! Reference dictionary (a plain structured value), its rendering to the text formats, and the
//! reference tokenizer (candidate sets per the statement of C03, all-paths / suffix-memo minimum
//! for C02). Nothing here parses the rendered text: the semantics is computed from structure.
use std::collections::HashMap;

use vibrato::dictionary::LexType;
use vibrato::{Dictionary, SystemDictionaryBuilder};

use crate::common::guard;

#[derive(Clone, Debug, PartialEq)]
pub struct Cat {
    pub name: String,
    pub invoke: bool,
    pub group: bool,
    pub length: u16,
}

#[derive(Clone, Debug, PartialEq)]
pub struct Row {
    pub surface: String,
    pub left: u16,
    pub right: u16,
    pub cost: i16,
    pub feature: String,
}

#[derive(Clone, Debug, PartialEq)]
pub struct UnkRow {
    pub cat: usize,
    pub left: u16,
    pub right: u16,
    pub cost: i16,
    pub feature: String,
}

#[derive(Clone, Copy, Debug, PartialEq, Eq, Hash)]
pub enum ConnKind {
    Matrix,
    Raw,
    Dual,
}

/// A bigram model on strings. Row `i` of `right`/`left` belongs to id `i + 1`; the cell `*`
/// means "no feature at this position".
#[derive(Clone, Debug, PartialEq, Default)]
pub struct Bigram {
    pub right: Vec<Vec<String>>,
    pub left: Vec<Vec<String>>,
    /// (right feature, left feature, cost)
    pub cost: Vec<(String, String, i32)>,
}

impl Bigram {
    pub fn num_templates(&self) -> usize {
        self.right
            .iter()
            .chain(self.left.iter())
            .map(|r| r.len())
            .max()
            .unwrap_or(0)
    }

    fn feat<'a>(rows: &'a [Vec<String>], id: usize, p: usize) -> &'a str {
        if id == 0 {
            ""
        } else {
            rows[id - 1].get(p).map(|s| s.as_str()).unwrap_or("*")
        }
    }

    /// The defining sum of C07 for one id pair, computed on strings.
    pub fn cost(&self, r: usize, l: usize) -> i64 {
        let k = self.num_templates();
        let mut table: HashMap<(&str, &str), i64> = HashMap::new();
        for (a, b, c) in &self.cost {
            table.insert((a.as_str(), b.as_str()), i64::from(*c));
        }
        let mut sum = 0;
        for p in 0..k {
            let fr = Self::feat(&self.right, r, p);
            let fl = Self::feat(&self.left, l, p);
            if fr == "*" || fl == "*" {
                continue;
            }
            if let Some(c) = table.get(&(fr, fl)) {
                sum += c;
            }
        }
        sum
    }

    /// Per-position contributions of the defining sum for one id pair.
    pub fn contribs(&self, r: usize, l: usize) -> Vec<i64> {
        (0..self.num_templates()).map(|p| self.cost_over(r, l, &[p])).collect()
    }

    /// Sum restricted to a subset of template positions (used for the dual connector's clamp).
    pub fn cost_over(&self, r: usize, l: usize, positions: &[usize]) -> i64 {
        let mut table: HashMap<(&str, &str), i64> = HashMap::new();
        for (a, b, c) in &self.cost {
            table.insert((a.as_str(), b.as_str()), i64::from(*c));
        }
        let mut sum = 0;
        for &p in positions {
            let fr = Self::feat(&self.right, r, p);
            let fl = Self::feat(&self.left, l, p);
            if fr == "*" || fl == "*" {
                continue;
            }
            if let Some(c) = table.get(&(fr, fl)) {
                sum += c;
            }
        }
        sum
    }

    pub fn table(&self) -> (usize, usize, Vec<i32>) {
        let nr = self.right.len() + 1;
        let nl = self.left.len() + 1;
        let mut t = vec![0i32; nr * nl];
        for r in 0..nr {
            for l in 0..nl {
                t[r * nl + l] = self.cost(r, l) as i32;
            }
        }
        (nr, nl, t)
    }

    pub fn render_side(rows: &[Vec<String>]) -> String {
        let mut s = String::new();
        for (i, row) in rows.iter().enumerate() {
            s.push_str(&format!("{}\t", i + 1));
            let cells: Vec<String> = row.iter().map(|c| csv_quote(c)).collect();
            s.push_str(&cells.join(","));
            s.push('\n');
        }
        s
    }

    pub fn render_cost(&self) -> String {
        let mut s = String::new();
        for (a, b, c) in &self.cost {
            s.push_str(&format!("{a}/{b}\t{c}\n"));
        }
        s
    }
}

pub fn csv_quote(s: &str) -> String {
    if s.contains(',') || s.contains('"') || s.contains('\n') || s.contains('\r') {
        format!("\"{}\"", s.replace('"', "\"\""))
    } else {
        s.to_string()
    }
}

#[derive(Clone, Debug, PartialEq)]
pub struct RefDict {
    pub cats: Vec<Cat>,
    /// (lo, hi inclusive, categories; first is primary), file order.
    pub ranges: Vec<(u32, u32, Vec<usize>)>,
    pub unk: Vec<UnkRow>,
    pub sys: Vec<Row>,
    pub user: Option<Vec<Row>>,
    pub nr: usize,
    pub nl: usize,
    /// conn[r * nl + l]
    pub conn: Vec<i32>,
    pub kind: ConnKind,
    pub bigram: Option<Bigram>,
    /// K2 quirk of the pinned tree: characters above U+FFFF take U+0000's entry.
    pub astral_takes_nul: bool,
    /// position of DEFAULT's definition line among the category lines of char.def (ids do not
    /// depend on it: DEFAULT is always 0, the others are numbered by first definition)
    pub default_line_pos: usize,
}

#[derive(Clone, Copy, Debug, PartialEq, Eq, Hash)]
pub struct Opts {
    pub ignore_space: bool,
    pub mgl: usize,
}

#[derive(Clone, Debug, PartialEq, Eq, Hash, PartialOrd, Ord)]
pub struct RefNode {
    pub start_node: usize,
    pub start_word: usize,
    pub end: usize,
    /// 0 system, 1 user, 2 unknown
    pub lex: u8,
    pub word_id: u32,
    pub left: u16,
    pub right: u16,
    pub cost: i16,
}

pub fn lex_code(t: LexType) -> u8 {
    match t {
        LexType::System => 0,
        LexType::User => 1,
        LexType::Unknown => 2,
    }
}

#[derive(Clone, Debug, Default)]
pub struct Analysis {
    pub chars: Vec<char>,
    pub sets: Vec<u32>,
    pub primary: Vec<usize>,
    pub run: Vec<usize>,
    pub nodes: Vec<RefNode>,
    /// boundaries that were processed as start boundaries (had a predecessor), in order
    pub processed: Vec<usize>,
    /// boundary from which EOS is connected; None if the reference predicts EOS unreachable
    pub eos_from: Option<usize>,
    pub best: Option<i64>,
    /// rule-coverage counters
    pub rules: [u32; 8],
}

pub const R_INVOKE_SUPPRESSED: usize = 0;
pub const R_GROUP_EMITTED: usize = 1;
pub const R_GROUP_OMITTED_MGL: usize = 2;
pub const R_PREFIX_TRUNCATED_BY_RUN: usize = 3;
pub const R_RUNLEN_PREFIX_SKIPPED: usize = 4;
pub const R_FALLBACK: usize = 5;
pub const R_SPACE_SKIP: usize = 6;
pub const R_TRAILING_GAP: usize = 7;
pub const RULE_NAMES: [&str; 8] = [
    "rule_invoke_suppressed",
    "rule_group_emitted",
    "rule_group_omitted_by_max_grouping",
    "rule_prefixes_truncated_by_run",
    "rule_runlen_prefix_skipped",
    "rule_fallback_single_char",
    "rule_space_skip",
    "rule_trailing_gap",
];

impl RefDict {
    pub fn matrix_default(nr: usize, nl: usize) -> Vec<i32> {
        vec![0; nr * nl]
    }

    pub fn conn(&self, r: u16, l: u16) -> i64 {
        i64::from(self.conn[usize::from(r) * self.nl + usize::from(l)])
    }

    pub fn cat_id(&self, name: &str) -> Option<usize> {
        self.cats.iter().position(|c| c.name == name)
    }

    /// (category set, primary category) of a character per the statement of C03.
    pub fn info(&self, c: char) -> (u32, usize) {
        let mut cp = c as u32;
        if cp > 0xFFFF {
            if self.astral_takes_nul {
                cp = 0;
            } else {
                return (1, 0);
            }
        }
        let mut res: (u32, usize) = (1, 0);
        for (lo, hi, cats) in &self.ranges {
            if *lo <= cp && cp <= *hi {
                let mut set = 0u32;
                for &k in cats {
                    set |= 1 << k;
                }
                res = (set, cats[0]);
            }
        }
        res
    }

    /// Index list of unk rows in the order the dictionary numbers them
    /// (grouped by category id, file order inside a category).
    pub fn unk_order(&self) -> Vec<usize> {
        let mut v = vec![];
        for cat in 0..self.cats.len() {
            for (i, u) in self.unk.iter().enumerate() {
                if u.cat == cat {
                    v.push(i);
                }
            }
        }
        v
    }

    // ---------- rendering ----------

    pub fn render_char_def(&self) -> String {
        let mut s = String::new();
        let mut order: Vec<usize> = (1..self.cats.len()).collect();
        order.insert(self.default_line_pos.min(order.len()), 0);
        for i in order {
            let c = &self.cats[i];
            s.push_str(&format!(
                "{} {} {} {}\n",
                c.name,
                u8::from(c.invoke),
                u8::from(c.group),
                c.length
            ));
        }
        for (lo, hi, cats) in &self.ranges {
            if lo == hi {
                s.push_str(&format!("0x{lo:04X}"));
            } else {
                s.push_str(&format!("0x{lo:04X}..0x{hi:04X}"));
            }
            for &k in cats {
                s.push(' ');
                s.push_str(&self.cats[k].name);
            }
            s.push('\n');
        }
        s
    }

    pub fn render_unk_def(&self) -> String {
        let mut s = String::new();
        for u in &self.unk {
            s.push_str(&format!(
                "{},{},{},{},{}\n",
                self.cats[u.cat].name, u.left, u.right, u.cost, u.feature
            ));
        }
        s
    }

    pub fn render_rows(rows: &[Row]) -> String {
        let mut s = String::new();
        for r in rows {
            s.push_str(&format!(
                "{},{},{},{},{}\n",
                csv_quote(&r.surface),
                r.left,
                r.right,
                r.cost,
                r.feature
            ));
        }
        s
    }

    pub fn render_matrix_def(&self) -> String {
        let mut s = format!("{} {}\n", self.nr, self.nl);
        for r in 0..self.nr {
            for l in 0..self.nl {
                let c = self.conn[r * self.nl + l];
                if c != 0 || (r + l) % 2 == 0 {
                    // zero cells are the default; list about half of them anyway
                    s.push_str(&format!("{r} {l} {c}\n"));
                }
            }
        }
        s
    }

    pub fn render_all(&self) -> serde_json::Value {
        let mut v = serde_json::json!({
            "lex.csv": Self::render_rows(&self.sys),
            "char.def": self.render_char_def(),
            "unk.def": self.render_unk_def(),
            "connector": format!("{:?}", self.kind),
        });
        match self.kind {
            ConnKind::Matrix => {
                v["matrix.def"] = self.render_matrix_def().into();
            }
            _ => {
                let b = self.bigram.as_ref().unwrap();
                v["bigram.right"] = Bigram::render_side(&b.right).into();
                v["bigram.left"] = Bigram::render_side(&b.left).into();
                v["bigram.cost"] = b.render_cost().into();
            }
        }
        if let Some(u) = &self.user {
            v["user.csv"] = Self::render_rows(u).into();
        }
        v
    }

    /// Builds the real dictionary from the rendered texts (system part only, then user lexicon).
    pub fn build_real(&self) -> Result<Dictionary, String> {
        let lex = Self::render_rows(&self.sys);
        let chr = self.render_char_def();
        let unk = self.render_unk_def();
        let r = guard(|| match self.kind {
            ConnKind::Matrix => SystemDictionaryBuilder::from_readers(
                lex.as_bytes(),
                self.render_matrix_def().as_bytes(),
                chr.as_bytes(),
                unk.as_bytes(),
            ),
            ConnKind::Raw | ConnKind::Dual => {
                let b = self.bigram.as_ref().unwrap();
                SystemDictionaryBuilder::from_readers_with_bigram_info(
                    lex.as_bytes(),
                    Bigram::render_side(&b.right).as_bytes(),
                    Bigram::render_side(&b.left).as_bytes(),
                    b.render_cost().as_bytes(),
                    chr.as_bytes(),
                    unk.as_bytes(),
                    self.kind == ConnKind::Dual,
                )
            }
        });
        let d = match r {
            Err(p) => return Err(format!("PANIC {p}")),
            Ok(Err(e)) => return Err(format!("Err {e}")),
            Ok(Ok(d)) => d,
        };
        if let Some(u) = &self.user {
            let txt = Self::render_rows(u);
            match guard(|| d.reset_user_lexicon_from_reader(Some(txt.as_bytes()))) {
                Err(p) => Err(format!("PANIC {p}")),
                Ok(Err(e)) => Err(format!("Err {e}")),
                Ok(Ok(d)) => Ok(d),
            }
        } else {
            Ok(d)
        }
    }

    /// Applies an id mapping given as the iterator contents accepted by
    /// `map_connection_ids_from_iter`: the i-th item (1-origin) names the old id that gets new id i.
    pub fn mapped(&self, lmap: &[u16], rmap: &[u16]) -> RefDict {
        let mut new_l = vec![0u16; self.nl];
        for (i, &old) in lmap.iter().enumerate() {
            new_l[usize::from(old)] = (i + 1) as u16;
        }
        let mut new_r = vec![0u16; self.nr];
        for (i, &old) in rmap.iter().enumerate() {
            new_r[usize::from(old)] = (i + 1) as u16;
        }
        let mut d = self.clone();
        for r in d.sys.iter_mut() {
            r.left = new_l[usize::from(r.left)];
            r.right = new_r[usize::from(r.right)];
        }
        if let Some(u) = d.user.as_mut() {
            for r in u.iter_mut() {
                r.left = new_l[usize::from(r.left)];
                r.right = new_r[usize::from(r.right)];
            }
        }
        for r in d.unk.iter_mut() {
            r.left = new_l[usize::from(r.left)];
            r.right = new_r[usize::from(r.right)];
        }
        let mut conn = vec![0; self.conn.len()];
        for r in 0..self.nr {
            for l in 0..self.nl {
                conn[usize::from(new_r[r]) * self.nl + usize::from(new_l[l])] =
                    self.conn[r * self.nl + l];
            }
        }
        d.conn = conn;
        d
    }

    // ---------- reference tokenizer ----------

    fn lex_matches(rows: &[Row], lex: u8, chars: &[char], pos: usize, out: &mut Vec<RefNode>, b: usize) {
        for (i, row) in rows.iter().enumerate() {
            let sc: Vec<char> = row.surface.chars().collect();
            if sc.is_empty() || pos + sc.len() > chars.len() {
                continue;
            }
            if chars[pos..pos + sc.len()] == sc[..] {
                out.push(RefNode {
                    start_node: b,
                    start_word: pos,
                    end: pos + sc.len(),
                    lex,
                    word_id: i as u32,
                    left: row.left,
                    right: row.right,
                    cost: row.cost,
                });
            }
        }
    }

    fn emit_unk(&self, order: &[usize], cat: usize, b: usize, pos: usize, end: usize, out: &mut Vec<RefNode>) {
        for (gid, &ui) in order.iter().enumerate() {
            let u = &self.unk[ui];
            if u.cat == cat {
                out.push(RefNode {
                    start_node: b,
                    start_word: pos,
                    end,
                    lex: 2,
                    word_id: gid as u32,
                    left: u.left,
                    right: u.right,
                    cost: u.cost,
                });
            }
        }
    }

    /// Candidate words starting at character `pos` (statement of C03).
    pub fn cands(&self, a: &mut Analysis, order: &[usize], opts: Opts, b: usize, pos: usize) -> Vec<RefNode> {
        let mut out = vec![];
        if let Some(u) = &self.user {
            Self::lex_matches(u, 1, &a.chars, pos, &mut out, b);
        }
        Self::lex_matches(&self.sys, 0, &a.chars, pos, &mut out, b);
        let matched = !out.is_empty();
        let cat = a.primary[pos];
        let c = &self.cats[cat];
        if matched && !c.invoke {
            a.rules[R_INVOKE_SUPPRESSED] += 1;
            return out;
        }
        let run = a.run[pos];
        let mut produced = matched;
        if c.group {
            if opts.mgl == 0 || run - 1 <= opts.mgl {
                self.emit_unk(order, cat, b, pos, pos + run, &mut out);
                produced = true;
                a.rules[R_GROUP_EMITTED] += 1;
            } else {
                a.rules[R_GROUP_OMITTED_MGL] += 1;
            }
        }
        let lim = usize::from(c.length).min(run);
        if usize::from(c.length) > run {
            a.rules[R_PREFIX_TRUNCATED_BY_RUN] += 1;
        }
        for i in 1..=lim {
            if c.group && i == run {
                a.rules[R_RUNLEN_PREFIX_SKIPPED] += 1;
                continue;
            }
            self.emit_unk(order, cat, b, pos, pos + i, &mut out);
            produced = true;
        }
        if !produced {
            a.rules[R_FALLBACK] += 1;
            self.emit_unk(order, cat, b, pos, pos + 1, &mut out);
        }
        out
    }

    pub fn analyze(&self, sentence: &str, opts: Opts, want_best: bool) -> Analysis {
        let order = self.unk_order();
        self.analyze_with(sentence, opts, want_best, &order)
    }

    pub fn analyze_with(&self, sentence: &str, opts: Opts, want_best: bool, order: &[usize]) -> Analysis {
        let mut a = Analysis {
            chars: sentence.chars().collect(),
            ..Default::default()
        };
        let n = a.chars.len();
        for &c in &a.chars {
            let (set, p) = self.info(c);
            a.sets.push(set);
            a.primary.push(p);
        }
        a.run = vec![1; n];
        for i in (0..n.saturating_sub(1)).rev() {
            if a.sets[i] & a.sets[i + 1] != 0 {
                a.run[i] = a.run[i + 1] + 1;
            }
        }
        if n == 0 {
            return a;
        }
        let space = if opts.ignore_space {
            self.cat_id("SPACE").map(|k| 1u32 << k)
        } else {
            None
        };
        // The scan over start positions mirrors the documented loop structure: every start
        // position is visited once; with ignore_space a reachable boundary whose character is a
        // SPACE character skips its run, and the words starting after the gap connect to the
        // nodes ending before it. (Which boundaries inside or right after a gap may start words
        // is not fixed by any property statement; the reference follows the implementation there.)
        let mut reach = vec![false; n + 1];
        reach[0] = true;
        let mut sn = 0usize;
        let mut sw = 0usize;
        let mut broke = false;
        while sw < n {
            if !reach[sn] {
                sw += 1;
                sn = sw;
                continue;
            }
            if let Some(sp) = space {
                if a.sets[sn] & sp != 0 {
                    sw += a.run[sn];
                    a.rules[R_SPACE_SKIP] += 1;
                }
            }
            if sw >= n {
                a.rules[R_TRAILING_GAP] += 1;
                broke = true;
                break;
            }
            a.processed.push(sn);
            let c = self.cands(&mut a, order, opts, sn, sw);
            for nd in &c {
                reach[nd.end] = true;
            }
            a.nodes.extend(c);
            sw += 1;
            sn = sw;
        }
        let _ = broke;
        let eos_from = if reach[sn] { Some(sn) } else { None };
        a.eos_from = eos_from;
        if want_best {
            if let Some(e) = eos_from {
                a.best = best_cost(&a.nodes, e, &|r, l| self.conn(r, l));
            }
        }
        a
    }
}

/// Minimum total cost over all paths BOS -> ... -> EOS through `nodes`, where a node may follow
/// a node whose `end` equals its `start_node` (or BOS if `start_node == 0`) and EOS follows any
/// node ending at `eos_from` (or BOS if `eos_from == 0`). Suffix recursion with memo on
/// (boundary, incoming right id): independent of the forward recurrence under test.
pub fn best_cost(nodes: &[RefNode], eos_from: usize, conn: &dyn Fn(u16, u16) -> i64) -> Option<i64> {
    let mut by_start: HashMap<usize, Vec<&RefNode>> = HashMap::new();
    for n in nodes {
        by_start.entry(n.start_node).or_default().push(n);
    }
    let mut memo: HashMap<(usize, u16), Option<i64>> = HashMap::new();
    fn go(
        b: usize,
        r: u16,
        eos_from: usize,
        by_start: &HashMap<usize, Vec<&RefNode>>,
        conn: &dyn Fn(u16, u16) -> i64,
        memo: &mut HashMap<(usize, u16), Option<i64>>,
    ) -> Option<i64> {
        if let Some(v) = memo.get(&(b, r)) {
            return *v;
        }
        let mut best: Option<i64> = None;
        if b == eos_from {
            best = Some(conn(r, 0));
        }
        if let Some(v) = by_start.get(&b) {
            for n in v {
                if let Some(rest) = go(n.end, n.right, eos_from, by_start, conn, memo) {
                    let c = conn(r, n.left) + i64::from(n.cost) + rest;
                    if best.map_or(true, |x| c < x) {
                        best = Some(c);
                    }
                }
            }
        }
        memo.insert((b, r), best);
        best
    }
    go(0, 0, eos_from, &by_start, conn, &mut memo)
}

/// Explicit enumeration of all complete paths (cross-check of `best_cost`); returns
/// (number of paths, minimum, number of paths attaining it) or None if more than `cap` paths.
pub fn enumerate_paths(
    nodes: &[RefNode],
    eos_from: usize,
    conn: &dyn Fn(u16, u16) -> i64,
    cap: usize,
) -> Option<(usize, Option<i64>, usize)> {
    let mut by_start: HashMap<usize, Vec<&RefNode>> = HashMap::new();
    for n in nodes {
        by_start.entry(n.start_node).or_default().push(n);
    }
    let mut count = 0usize;
    let mut best: Option<i64> = None;
    let mut nbest = 0usize;
    // iterative DFS: (boundary, right id, cost so far)
    let mut stack: Vec<(usize, u16, i64)> = vec![(0, 0, 0)];
    while let Some((b, r, c)) = stack.pop() {
        if b == eos_from {
            let t = c + conn(r, 0);
            count += 1;
            if count > cap {
                return None;
            }
            match best {
                Some(x) if t > x => {}
                Some(x) if t == x => nbest += 1,
                _ => {
                    best = Some(t);
                    nbest = 1;
                }
            }
        }
        if let Some(v) = by_start.get(&b) {
            for n in v {
                stack.push((n.end, n.right, c + conn(r, n.left) + i64::from(n.cost)));
            }
        }
    }
    Some((count, best, nbest))
}
