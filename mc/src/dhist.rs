//! E2 for dictionaries: operation histories over
//! {load user lexicon, clear, map connection ids, write->read}, executed on the real
//! `Dictionary` and on a structural reference state.
use serde_json::json;
use vibrato::Dictionary;

use crate::common::*;
use crate::real::*;
use crate::refmodel::*;
use crate::universe::*;

#[derive(Clone, Debug, PartialEq, Eq, Hash)]
pub enum Op {
    LoadUser(usize),
    Clear,
    Map(usize),
    WriteRead,
}

#[derive(Clone, Debug)]
pub struct Family {
    pub name: String,
    pub base: RefDict,
    /// user lexicon menu: rows use the ORIGINAL (unmapped) ids, as a user would write them
    pub users: Vec<Vec<Row>>,
    /// mapping menu: (lmap, rmap) iterator contents
    pub maps: Vec<(Vec<u16>, Vec<u16>)>,
    pub alphabet: Vec<char>,
}

impl Family {
    pub fn describe_op(&self, op: &Op) -> serde_json::Value {
        match op {
            Op::LoadUser(i) => json!({"op": "reset_user_lexicon_from_reader", "csv": RefDict::render_rows(&self.users[*i])}),
            Op::Clear => json!({"op": "reset_user_lexicon_from_reader(None)"}),
            Op::Map(i) => json!({"op": "map_connection_ids_from_iter", "lmap": self.maps[*i].0, "rmap": self.maps[*i].1}),
            Op::WriteRead => json!({"op": "write -> read"}),
        }
    }
    pub fn describe(&self, hist: &[Op]) -> serde_json::Value {
        json!({
            "family": self.name,
            "files": self.base.render_all(),
            "history": hist.iter().map(|o| self.describe_op(o)).collect::<Vec<_>>(),
        })
    }
}

/// Result of applying an op to the real dictionary.
pub enum RealStep {
    Ok(Dictionary),
    Err(String),
    Panic(String),
}

pub fn write_bytes(d: &Dictionary) -> Result<(Vec<u8>, usize), String> {
    let mut buf = vec![];
    match guard(|| d.write(&mut buf)) {
        Err(p) => Err(format!("PANIC {p}")),
        Ok(Err(e)) => Err(format!("Err {e}")),
        Ok(Ok(n)) => Ok((buf, n)),
    }
}

pub fn read_bytes(b: &[u8]) -> RealStep {
    match guard(|| Dictionary::read(b)) {
        Err(p) => RealStep::Panic(p),
        Ok(Err(e)) => RealStep::Err(e.to_string()),
        Ok(Ok(d)) => RealStep::Ok(d),
    }
}

pub fn apply_real(f: &Family, d: Dictionary, op: &Op) -> RealStep {
    match op {
        Op::LoadUser(i) => {
            let txt = RefDict::render_rows(&f.users[*i]);
            match guard(move || d.reset_user_lexicon_from_reader(Some(txt.as_bytes()))) {
                Err(p) => RealStep::Panic(p),
                Ok(Err(e)) => RealStep::Err(e.to_string()),
                Ok(Ok(d)) => RealStep::Ok(d),
            }
        }
        Op::Clear => match guard(move || d.reset_user_lexicon_from_reader(None::<&[u8]>)) {
            Err(p) => RealStep::Panic(p),
            Ok(Err(e)) => RealStep::Err(e.to_string()),
            Ok(Ok(d)) => RealStep::Ok(d),
        },
        Op::Map(i) => {
            let (l, r) = f.maps[*i].clone();
            match guard(move || d.map_connection_ids_from_iter(l, r)) {
                Err(p) => RealStep::Panic(p),
                Ok(Err(e)) => RealStep::Err(e.to_string()),
                Ok(Ok(d)) => RealStep::Ok(d),
            }
        }
        Op::WriteRead => match write_bytes(&d) {
            Err(e) => {
                if let Some(p) = e.strip_prefix("PANIC ") {
                    RealStep::Panic(p.to_string())
                } else {
                    RealStep::Err(e)
                }
            }
            Ok((b, _)) => read_bytes(&b),
        },
    }
}

/// Is `m` a valid mapping iterator for `n` ids (a permutation of 1..n-1)?
pub fn valid_mapping(m: &[u16], n: usize) -> bool {
    if m.len() + 1 != n {
        return false;
    }
    let mut seen = vec![false; n];
    for &x in m {
        let x = usize::from(x);
        if x == 0 || x >= n || seen[x] {
            return false;
        }
        seen[x] = true;
    }
    true
}

/// Structural reference state: the dictionary with all mappings applied, plus the composed
/// original->current id maps (user lexicon files are written with original ids).
#[derive(Clone, Debug)]
pub struct RefState {
    pub dict: RefDict,
    pub cl: Vec<u16>,
    pub cr: Vec<u16>,
    /// index of the loaded user lexicon in the family's menu
    pub user: Option<usize>,
}

impl RefState {
    pub fn new(base: &RefDict) -> Self {
        RefState {
            dict: base.clone(),
            cl: (0..base.nl as u16).collect(),
            cr: (0..base.nr as u16).collect(),
            user: None,
        }
    }

    /// Applies `op`; `Err(())` if the reference says the operation must be rejected.
    pub fn apply(&mut self, f: &Family, op: &Op) -> Result<(), ()> {
        match op {
            Op::LoadUser(i) => {
                let rows = &f.users[*i];
                for r in rows {
                    if usize::from(r.left) >= self.dict.nl || usize::from(r.right) >= self.dict.nr {
                        return Err(());
                    }
                }
                let mapped: Vec<Row> = rows
                    .iter()
                    .map(|r| Row {
                        left: self.cl[usize::from(r.left)],
                        right: self.cr[usize::from(r.right)],
                        ..r.clone()
                    })
                    .collect();
                self.dict.user = Some(mapped);
                self.user = Some(*i);
                Ok(())
            }
            Op::Clear => {
                self.dict.user = None;
                self.user = None;
                Ok(())
            }
            Op::Map(i) => {
                let (l, r) = &f.maps[*i];
                if !valid_mapping(l, self.dict.nl) || !valid_mapping(r, self.dict.nr) {
                    return Err(());
                }
                self.dict = self.dict.mapped(l, r);
                let mut new_l = vec![0u16; self.dict.nl];
                for (k, &old) in l.iter().enumerate() {
                    new_l[usize::from(old)] = (k + 1) as u16;
                }
                let mut new_r = vec![0u16; self.dict.nr];
                for (k, &old) in r.iter().enumerate() {
                    new_r[usize::from(old)] = (k + 1) as u16;
                }
                for x in self.cl.iter_mut() {
                    *x = new_l[usize::from(*x)];
                }
                for x in self.cr.iter_mut() {
                    *x = new_r[usize::from(*x)];
                }
                Ok(())
            }
            Op::WriteRead => Ok(()),
        }
    }
}

/// Everything observable of a dictionary in one state.
#[derive(Clone, Debug, PartialEq, Eq, Hash)]
pub struct Obs {
    /// per (option, sentence): tokens or panic
    pub tokens: Vec<Result<Vec<Tok>, String>>,
    pub conn: Vec<i32>,
    pub dims: (usize, usize),
    /// character table on a probe set: (code point, (category set, primary, invoke, group, length))
    pub chars: Vec<(u32, (u32, u32, bool, bool, u16))>,
}

pub const OBS_OPTS: [Opts; 2] = [
    Opts {
        ignore_space: false,
        mgl: 0,
    },
    Opts {
        ignore_space: true,
        mgl: 1,
    },
];

/// Observes a dictionary: full connection table, then tokens of every sentence under both
/// option settings (the same tokenizer is re-configured, so the instance under test is the one
/// that is observed). Consumes the dictionary.
pub fn observe(d: Dictionary, sentences: &[String]) -> Obs {
    let dims = d.verif_conn_dims();
    let mut conn = vec![];
    for r in 0..dims.0 {
        for l in 0..dims.1 {
            conn.push(guard(|| d.verif_conn_cost(r as u16, l as u16)).unwrap_or(i32::MIN));
        }
    }
    let mut chars = vec![];
    for cp in [0u32, 0x1F, 0x20, 0x21, 0x60, 0x61, 0x62, 0x63, 0x64, 0x7A, 0x7B, 0x2FFF, 0x3000, 0x3001, 0x303F, 0x3040, 0x3041, 0x3042, 0x3043, 0x309F, 0x30A0, 0xFFFE, 0xFFFF, 0x10000, 0x10061, 0x1F600] {
        if let Some(c) = char::from_u32(cp) {
            chars.push((cp, d.verif_char_info(c)));
        }
    }
    let mut tokens = vec![];
    let mut t = vibrato::Tokenizer::new(d);
    for opts in OBS_OPTS {
        t = match guard(move || t.ignore_space(opts.ignore_space).map(|t| t.max_grouping_len(opts.mgl))) {
            Ok(Ok(t)) => t,
            _ => {
                println!("MACHINERY: tokenizer options rejected in dictionary-history observation");
                std::process::exit(2);
            }
        };
        for s in sentences {
            tokens.push(run_fresh(&t, s, false).map(|r| r.tokens));
        }
    }
    Obs { tokens, conn, dims, chars }
}

/// Executes a history from a fresh build. Returns the dictionary after the last op, or the
/// index and outcome of the first op that did not return a dictionary.
pub fn exec_history(f: &Family, hist: &[Op]) -> Result<Dictionary, (usize, RealStep)> {
    let mut d = match f.base.build_real() {
        Ok(d) => d,
        Err(e) => {
            println!("MACHINERY: family {} base does not build: {e}", f.name);
            std::process::exit(2);
        }
    };
    for (i, op) in hist.iter().enumerate() {
        match apply_real(f, d, op) {
            RealStep::Ok(nd) => d = nd,
            other => return Err((i, other)),
        }
    }
    Ok(d)
}

pub fn family_d(_tier: Tier) -> Vec<Family> {
    let (cats, mut ranges) = lex_char_def();
    // neighbouring code points whose FIRST category is the same and whose category sets differ
    // ('b' is AL and KJ, its neighbours AL only), and a single overridden code point inside a block
    ranges.push(('b' as u32, 'b' as u32, vec![2, 3]));
    ranges.push((0x3042, 0x3042, vec![3, 2]));
    // feature strings with text-level corners: a quoted cell with a line break, trailing blank,
    // TAB, empty feature, leading '#'
    let rows = vec![
        row("a", 1, 1, 30, "a#1"),
        row("ab", 2, 3, 45, "\"l1\nl2\",ab"),
        row("abc", 3, 2, 50, "abc "),
        row("c", 2, 2, 20, "C:\\new\\notes"),
        row("a", 3, 1, 31, "a#2,x"),
        row("b", 1, 3, 28, "#b\tx"),
    ];
    let users = vec![
        vec![row("ab", 2, 1, 25, "\"u\r\nv\",user-ab"), row("c", 1, 3, -5, "user c\u{3000}")],
        vec![row("a", 3, 2, 5, "user-a"), row("bc", 2, 2, 10, ""), row("a", 1, 1, 6, "user-a#2")],
    ];
    let maps = vec![
        (vec![2, 3, 1], vec![3, 1, 2]), // 3-cycles (not involutions)
        (vec![2, 1, 3], vec![1, 3, 2]), // transpositions
        (vec![1, 2, 3], vec![1, 2, 3]), // identity
        (vec![3, 2, 1], vec![2, 3, 1]),
    ];
    let mut out = vec![];
    let mut mk = |name: &str, nr: usize, nl: usize, conn: Vec<i32>, kind: ConnKind, bigram: Option<Bigram>| {
        let sys: Vec<Row> = rows.clone();
        out.push(Family {
            name: name.to_string(),
            base: RefDict {
                cats: cats.clone(),
                ranges: ranges.clone(),
                unk: vec![
                    unk(0, 1, 1, 300, "U-DEFAULT"),
                    unk(1, 0, 0, 50, "U-SPACE"),
                    unk(2, 2, 1, 120, "U-AL-1"),
                    unk(2, 3, 2, 125, "U-AL-2,x"),
                    unk(3, 2, 3, 90, "U-KJ"),
                ],
                sys,
                user: None,
                nr,
                nl,
                conn,
                kind,
                bigram,
                astral_takes_nul: false,
                default_line_pos: 0,
            },
            users: users.clone(),
            maps: maps.clone(),
            alphabet: vec!['a', 'b', 'c', ' '],
        });
    };
    mk("D/matrix4x4", 4, 4, matrix_pattern(4, 4, 1), ConnKind::Matrix, None);
    {
        // extreme matrix cells (the smallest and the largest 16-bit cost, also in row/column 0)
        let mut m = matrix_pattern(4, 4, 1);
        m[4 + 2] = -32768;
        m[2 * 4 + 1] = 32767;
        m[1] = -32768;
        m[3 * 4] = 32767;
        m[3 * 4 + 3] = -32768;
        mk("D/matrix4x4-extreme-cells", 4, 4, m, ConnKind::Matrix, None);
    }
    let b3 = lex_bigram(3, 4, 4);
    let (nr, nl, t) = b3.table();
    mk("D/raw-K3", nr, nl, t, ConnKind::Raw, Some(b3));
    // single feature-pair costs beyond 16 bits (the raw connector keeps 32-bit costs)
    let b3big = lex_bigram_scaled(3, 4, 4, 3000);
    let (nr, nl, t) = b3big.table();
    mk("D/raw-K3-costs-beyond-16-bits", nr, nl, t, ConnKind::Raw, Some(b3big));
    let b9 = lex_bigram(9, 4, 4);
    let (nr, nl, t) = b9.table();
    mk("D/dual-K9", nr, nl, t.clone(), ConnKind::Dual, Some(b9.clone()));
    mk("D/raw-K9", nr, nl, t, ConnKind::Raw, Some(b9));
    // 10 templates: positions 0-7 tell all ids apart, at positions 8-9 the ids 1 and 2 (right side)
    // resp. 2 and 3 (left side) share their features, so that they share a row / column of the
    // dual connector's pre-summed matrix
    let mut right = vec![];
    let mut left = vec![];
    for id in 1..4usize {
        let mut r: Vec<String> = (0..8).map(|p| format!("R{id}p{p}")).collect();
        let rs = if id <= 2 { "Rshared".to_string() } else { "Rthree".to_string() };
        r.push(format!("{rs}8"));
        r.push(format!("{rs}9"));
        right.push(r);
        let mut l: Vec<String> = (0..8).map(|p| format!("L{id}p{p}")).collect();
        let ls = if id >= 2 { "Lshared".to_string() } else { "Lone".to_string() };
        l.push(format!("{ls}8"));
        l.push(format!("{ls}9"));
        left.push(l);
    }
    let mut cost = vec![];
    let mut n = 0i32;
    for r in &right {
        for l in &left {
            for p in 0..10 {
                n += 1;
                if n % 3 != 0 && !cost.iter().any(|c: &(String, String, i32)| c.0 == r[p] && c.1 == l[p]) {
                    cost.push((r[p].clone(), l[p].clone(), (n * 29) % 53 - 26));
                }
            }
        }
    }
    cost.push((String::new(), "Lshared8".into(), 17));
    cost.push(("Rshared9".into(), String::new(), -9));
    let bs = Bigram { right, left, cost };
    let (nr, nl, t) = bs.table();
    mk("D/dual-K10-shared-rows", nr, nl, t, ConnKind::Dual, Some(bs));
    drop(mk);
    // non-square id spaces (more right ids than left ids and vice versa)
    for (name, k, nr, nl, kind) in [("D/raw-K3-5x3", 3usize, 5usize, 3usize, ConnKind::Raw), ("D/dual-K9-3x5", 9, 3, 5, ConnKind::Dual), ("D/matrix-5x3", 0, 5, 3, ConnKind::Matrix)] {
        let (conn, bigram) = if k == 0 {
            (matrix_pattern(nr, nl, 1), None)
        } else {
            let b = lex_bigram(k, nr, nl);
            (b.table().2, Some(b))
        };
        let fit = |rows: &Vec<Row>| -> Vec<Row> {
            rows.iter()
                .enumerate()
                .map(|(i, r)| Row {
                    left: (1 + (usize::from(r.left) + i) % (nl - 1)) as u16,
                    right: (1 + (usize::from(r.right) + 2 * i) % (nr - 1)) as u16,
                    ..r.clone()
                })
                .collect()
        };
        let rot = |n: usize| -> Vec<u16> { (1..n as u16).map(|i| if usize::from(i) + 1 < n { i + 1 } else { 1 }).collect() };
        let rev = |n: usize| -> Vec<u16> { (1..n as u16).rev().collect() };
        let idn = |n: usize| -> Vec<u16> { (1..n as u16).collect() };
        out.push(Family {
            name: name.to_string(),
            base: RefDict {
                cats: cats.clone(),
                ranges: ranges.clone(),
                unk: lex_unk_rows(nr, nl),
                sys: fit(&rows),
                user: None,
                nr,
                nl,
                conn,
                kind,
                bigram,
                astral_takes_nul: false,
                default_line_pos: 0,
            },
            users: users.iter().map(fit).collect(),
            maps: vec![(rot(nl), rev(nr)), (rev(nl), rot(nr)), (idn(nl), idn(nr)), (rot(nl), rot(nr)), {
                // identity below min(nl, nr); only the two highest ids of the longer side are exchanged
                let tail_swap = |n: usize| -> Vec<u16> {
                    let mut v = idn(n);
                    let k = v.len();
                    v.swap(k - 1, k - 2);
                    v
                };
                if nr > nl { (idn(nl), tail_swap(nr)) } else { (tail_swap(nl), idn(nr)) }
            }],
            alphabet: vec!['a', 'b', 'c', ' '],
        });
    }
    out
}

pub fn all_ops(f: &Family) -> Vec<Op> {
    let mut v = vec![];
    for i in 0..f.users.len() {
        v.push(Op::LoadUser(i));
    }
    v.push(Op::Clear);
    for i in 0..f.maps.len() {
        v.push(Op::Map(i));
    }
    v.push(Op::WriteRead);
    v
}
