//! Finite families of dictionaries shared by several properties.
use crate::common::Tier;
use crate::refmodel::*;

pub fn cat(name: &str, invoke: u8, group: u8, length: u16) -> Cat {
    Cat {
        name: name.to_string(),
        invoke: invoke != 0,
        group: group != 0,
        length,
    }
}

pub fn row(surface: &str, left: u16, right: u16, cost: i16, feature: &str) -> Row {
    Row {
        surface: surface.to_string(),
        left,
        right,
        cost,
        feature: feature.to_string(),
    }
}

pub fn unk(cat: usize, left: u16, right: u16, cost: i16, feature: &str) -> UnkRow {
    UnkRow {
        cat,
        left,
        right,
        cost,
        feature: feature.to_string(),
    }
}

/// A small asymmetric matrix with negative cells; deterministic.
pub fn matrix_pattern(nr: usize, nl: usize, style: usize) -> Vec<i32> {
    let mut m = vec![0i32; nr * nl];
    for r in 0..nr {
        for l in 0..nl {
            let v: i32 = match style {
                0 => 0,
                1 => (r as i32 * 7 + l as i32 * 3 + 1) * if (r + 2 * l) % 3 == 0 { -1 } else { 1 },
                2 => {
                    // negative cells between non-zero ids: longer paths get cheaper
                    if r > 0 && l > 0 {
                        -20 - (r as i32) * 3 + (l as i32)
                    } else {
                        5
                    }
                }
                3 => {
                    // only the EOS column decides
                    if l == 0 {
                        10 * r as i32 + 1
                    } else {
                        0
                    }
                }
                4 => {
                    // only the BOS row decides
                    if r == 0 {
                        10 * l as i32 + 1
                    } else {
                        0
                    }
                }
                _ => 1, // exact ties
            };
            m[r * nl + l] = v;
        }
    }
    m
}

#[derive(Clone, Debug)]
pub struct Universe {
    pub name: String,
    pub dict: RefDict,
    pub alphabet: Vec<char>,
    pub opts: Vec<Opts>,
    /// dictionary deliberately violates "every primary category has an unk entry" (finding K1)
    pub k1: bool,
    /// id mapping applied to the real dictionary after building (reference: `dict.mapped`)
    pub mapping: Option<(Vec<u16>, Vec<u16>)>,
    /// additional (long) sentences explored besides all strings over the alphabet
    pub extra_sentences: Vec<String>,
}

impl Universe {
    /// The same dictionary with the last two categories declared in the other order (ids
    /// exchanged everywhere): a DIFFERENT char.def / unk.def text for the same behaviour.
    /// Used as a neighbour instance built in the same thread (hidden-state interference).
    pub fn swapped_categories(&self) -> Option<Universe> {
        let n = self.dict.cats.len();
        if n < 4 {
            return None;
        }
        let (a, b) = (n - 2, n - 1);
        let mut u = self.clone();
        u.dict.cats.swap(a, b);
        let sw = |k: usize| if k == a { b } else if k == b { a } else { k };
        for r in u.dict.ranges.iter_mut() {
            for k in r.2.iter_mut() {
                *k = sw(*k);
            }
        }
        for r in u.dict.unk.iter_mut() {
            r.cat = sw(r.cat);
        }
        u.name.push_str("/swapped-categories");
        Some(u)
    }

    /// Builds the real dictionary (applying the mapping) and the matching reference.
    pub fn build(&self) -> Result<(vibrato::Dictionary, RefDict), String> {
        let d = self.dict.build_real()?;
        match &self.mapping {
            None => Ok((d, self.dict.clone())),
            Some((lm, rm)) => {
                let r = crate::common::guard(|| {
                    d.map_connection_ids_from_iter(lm.iter().cloned(), rm.iter().cloned())
                });
                match r {
                    Err(p) => Err(format!("PANIC {p}")),
                    Ok(Err(e)) => Err(format!("Err {e}")),
                    Ok(Ok(d)) => Ok((d, self.dict.mapped(lm, rm))),
                }
            }
        }
    }

    pub fn describe(&self) -> serde_json::Value {
        serde_json::json!({
            "universe": self.name,
            "files": self.dict.render_all(),
            "mapping": self.mapping.as_ref().map(|(l, r)| serde_json::json!({"lmap": l, "rmap": r})),
        })
    }
}

pub const CAT_DEFAULT: usize = 0;
pub const CAT_SPACE: usize = 1;
pub const CAT_T: usize = 2;
pub const CAT_U: usize = 3;

/// Character -> category layouts of the unknown-word universe.
pub fn unk_layouts() -> Vec<(&'static str, Vec<(u32, u32, Vec<usize>)>)> {
    let a = 'a' as u32;
    let b = 'b' as u32;
    let c = 'c' as u32;
    let sp = ' ' as u32;
    vec![
        (
            "single",
            vec![
                (sp, sp, vec![CAT_SPACE]),
                (a, b, vec![CAT_T]),
                (c, c, vec![CAT_U]),
            ],
        ),
        (
            "multi",
            vec![
                (sp, sp, vec![CAT_SPACE]),
                (a, a, vec![CAT_T, CAT_U]),
                (b, b, vec![CAT_U, CAT_T]),
                (c, c, vec![CAT_U]),
            ],
        ),
        (
            "chain",
            vec![
                (sp, sp, vec![CAT_SPACE]),
                (a, a, vec![CAT_T]),
                (b, b, vec![CAT_T, CAT_U]),
                (c, c, vec![CAT_U]),
            ],
        ),
        (
            "override",
            vec![
                (sp, sp, vec![CAT_SPACE]),
                (a, c, vec![CAT_T]),
                (b, b, vec![CAT_U]),
            ],
        ),
        (
            "a-default",
            vec![
                (sp, sp, vec![CAT_SPACE]),
                (b, b, vec![CAT_T]),
                (c, c, vec![CAT_U, CAT_DEFAULT]),
            ],
        ),
        (
            // a later DEFAULT-only range line takes a character back out of an earlier range
            "override-default",
            vec![
                (sp, sp, vec![CAT_SPACE]),
                (a, c, vec![CAT_T]),
                (b, b, vec![CAT_DEFAULT]),
            ],
        ),
        (
            // a narrow line FOLLOWED by a later, broader line that re-declares its code point:
            // the later line wins on every shared code point
            "narrow-then-broad",
            vec![
                (sp, sp, vec![CAT_SPACE]),
                (b, b, vec![CAT_U]),
                (a, c, vec![CAT_T]),
            ],
        ),
        (
            // the SPACE line is followed by a later, broader line: U+0020 is NOT a space character here
            "space-then-broad",
            vec![
                (sp, sp, vec![CAT_SPACE]),
                (0x1F, 0x21, vec![CAT_U]),
                (a, b, vec![CAT_T]),
                (c, c, vec![CAT_U]),
            ],
        ),
        (
            // two lines of one category, the later one starting lower and touching the earlier one
            "descending-touching",
            vec![
                (sp, sp, vec![CAT_SPACE]),
                (c, c, vec![CAT_U]),
                (b, b, vec![CAT_T]),
                (a, a, vec![CAT_T]),
            ],
        ),
        (
            "space-shared",
            vec![
                (sp, sp, vec![CAT_SPACE, CAT_T]),
                (a, b, vec![CAT_T]),
                (c, c, vec![CAT_U]),
            ],
        ),
    ]
}

fn unk_rows(mult: usize, k1_missing: Option<usize>) -> Vec<UnkRow> {
    let mut v = vec![];
    for cat in 0..4usize {
        if Some(cat) == k1_missing {
            continue;
        }
        for m in 0..mult {
            let id = ((cat + m) % 3) as u16;
            v.push(unk(
                cat,
                id,
                ((cat + 2 * m + 1) % 3) as u16,
                (100 + 10 * cat as i16) * if m == 1 { -1 } else { 1 },
                &format!("UNK{cat}_{m},*"),
            ));
        }
    }
    // interleave categories in file order to exercise the grouping by category
    v.reverse();
    v
}

pub fn lexicon_menu() -> Vec<(&'static str, Vec<Row>)> {
    vec![
        ("nomatch", vec![row("z", 1, 1, 5, "z-word")]),
        ("a", vec![row("a", 1, 2, 40, "a-word")]),
        (
            "a+ab",
            vec![row("a", 1, 2, 40, "a-word"), row("ab", 2, 1, 70, "ab-word")],
        ),
        // "a" in the system lexicon, "b" and "bc" only in a user lexicon (see `user_rows_for`)
        ("a+user-b", vec![row("a", 1, 2, 40, "a-word")]),
    ]
}

/// User lexicon that goes with a lexicon menu entry.
pub fn user_rows_for(name: &str) -> Option<Vec<Row>> {
    if name == "a+user-b" {
        Some(vec![row("b", 2, 1, 45, "user-b"), row("bc", 1, 1, 60, "user-bc"), row(" ", 1, 2, 30, "user-space")])
    } else {
        None
    }
}

/// U-unk: unknown-word universe (C01, C03, C10 safety).
pub fn u_unk(tier: Tier) -> Vec<Universe> {
    let mut out = vec![];
    let lengths: Vec<u16> = tier.pick(vec![0, 1, 2, 3], vec![0, 1, 2, 3, 15]);
    let u_settings = [(1u8, 0u8, 2u16), (0, 1, 0), (1, 1, 1)];
    let mgls = [0usize, 1, 2, 3];
    for (lname, ranges) in unk_layouts() {
        for invoke in 0..2u8 {
            for group in 0..2u8 {
                for &length in &lengths {
                    for (ui, us) in u_settings.iter().enumerate() {
                        for mult in 1..=2usize {
                            for (xname, lex) in lexicon_menu() {
                                let cats = vec![
                                    cat("DEFAULT", 0, 1, 0),
                                    cat("SPACE", 0, 1, 0),
                                    cat("T", invoke, group, length),
                                    cat("U", us.0, us.1, us.2),
                                ];
                                let conn = matrix_pattern(3, 3, 1);
                                let d = RefDict {
                                    cats,
                                    ranges: ranges.clone(),
                                    unk: unk_rows(mult, None),
                                    sys: lex.clone(),
                                    user: user_rows_for(xname),
                                    nr: 3,
                                    nl: 3,
                                    conn,
                                    kind: ConnKind::Matrix,
                                    bigram: None,
                                    astral_takes_nul: false,
                default_line_pos: 0,
                                };
                                let mut opts = vec![];
                                for &mgl in &mgls {
                                    for ig in [false, true] {
                                        opts.push(Opts {
                                            ignore_space: ig,
                                            mgl,
                                        });
                                    }
                                }
                                out.push(Universe {
                                    name: format!(
                                        "unk/{lname}/T={invoke}{group}{length}/U#{ui}/mult{mult}/{xname}"
                                    ),
                                    dict: d,
                                    alphabet: vec!['a', 'b', 'c', ' ', '😀'],
                                    opts,
                                    k1: false,
                                    mapping: None,
                    extra_sentences: vec![],
                                });
                            }
                        }
                    }
                }
            }
        }
    }
    out
}

/// Sub-universe for U+0000 and astral characters with a range line over U+0000 (K2) and for
/// lexicon matching next to U+0000.
pub fn u_nul(_tier: Tier) -> Vec<Universe> {
    let mut out = vec![];
    let a = 'a' as u32;
    for (nm, ranges) in [
        (
            "nul-covered",
            vec![(0u32, 0u32, vec![CAT_T]), (a, a, vec![CAT_T]), (0x20, 0x20, vec![CAT_SPACE])],
        ),
        (
            "nul-default",
            vec![(a, a, vec![CAT_T]), (0x20, 0x20, vec![CAT_SPACE])],
        ),
        (
            // U+0000 is a SPACE character; the last BMP character U+FFFF is not
            "nul-space",
            vec![(0u32, 0x20, vec![CAT_SPACE]), (a, a, vec![CAT_T])],
        ),
    ] {
        for (tn, t) in [("T=012", (0u8, 1u8, 2u16)), ("T=101", (1, 0, 1))] {
            for (xname, lex) in lexicon_menu() {
                let cats = vec![
                    cat("DEFAULT", 0, 1, 0),
                    cat("SPACE", 0, 1, 0),
                    cat("T", t.0, t.1, t.2),
                    cat("U", 1, 0, 2),
                ];
                let d = RefDict {
                    cats,
                    ranges: ranges.clone(),
                    unk: unk_rows(1, None),
                    sys: lex.clone(),
                    user: user_rows_for(xname),
                    nr: 3,
                    nl: 3,
                    conn: matrix_pattern(3, 3, 1),
                    kind: ConnKind::Matrix,
                    bigram: None,
                    astral_takes_nul: false,
                default_line_pos: 0,
                };
                if tn == "T=012" && xname != "nomatch" {
                    let mut d2 = d.clone();
                    d2.default_line_pos = 2;
                    out.push(Universe {
                        name: format!("nul/{nm}/{tn}/{xname}/DEFAULT-line@2"),
                        dict: d2,
                        alphabet: if nm == "nul-space" { vec!['a', '\u{FFFF}', '\0', '\u{FFFE}', ' '] } else { vec!['a', 'b', '\0', '😀', ' '] },
                        opts: vec![Opts { ignore_space: true, mgl: 1 }],
                        k1: false,
                        mapping: None,
                    extra_sentences: vec![],
                    });
                }
                // astral characters whose low 16 bits coincide with a SPACE / categorised / lexicon
                // code point: they are still "above U+FFFF" and must not alias the BMP character
                out.push(Universe {
                    name: format!("nul-alias/{nm}/{tn}/{xname}"),
                    dict: d.clone(),
                    alphabet: if nm == "nul-space" { vec!['a', '\u{FFFF}', 'b', '\0', ' '] } else { vec!['a', '\u{10020}', '\u{10061}', 'b', ' '] },
                    opts: vec![
                        Opts { ignore_space: false, mgl: 0 },
                        Opts { ignore_space: true, mgl: 1 },
                    ],
                    k1: false,
                    mapping: None,
                    extra_sentences: vec![],
                });
                out.push(Universe {
                    name: format!("nul/{nm}/{tn}/{xname}"),
                    dict: d,
                    alphabet: if nm == "nul-space" { vec!['a', '\u{FFFF}', '\0', '\u{FFFE}', ' '] } else { vec!['a', 'b', '\0', '😀', ' '] },
                    opts: vec![
                        Opts {
                            ignore_space: false,
                            mgl: 0,
                        },
                        Opts {
                            ignore_space: true,
                            mgl: 1,
                        },
                    ],
                    k1: false,
                    mapping: None,
                    extra_sentences: vec![],
                });
            }
        }
    }
    out
}

/// K1 sub-universe: a primary category without unk.def entries.
pub fn u_k1(_tier: Tier) -> Vec<Universe> {
    let mut out = vec![];
    for (lname, ranges) in unk_layouts().into_iter().take(3) {
        for missing in [CAT_T, CAT_U] {
            for (xname, lex) in lexicon_menu() {
                let cats = vec![
                    cat("DEFAULT", 0, 1, 0),
                    cat("SPACE", 0, 1, 0),
                    cat("T", 0, 1, 2),
                    cat("U", 1, 0, 2),
                ];
                let d = RefDict {
                    cats,
                    ranges: ranges.clone(),
                    unk: unk_rows(1, Some(missing)),
                    sys: lex.clone(),
                    user: user_rows_for(xname),
                    nr: 3,
                    nl: 3,
                    conn: matrix_pattern(3, 3, 1),
                    kind: ConnKind::Matrix,
                    bigram: None,
                    astral_takes_nul: false,
                default_line_pos: 0,
                };
                out.push(Universe {
                    name: format!("k1/{lname}/missing{missing}/{xname}"),
                    dict: d,
                    alphabet: vec!['a', 'b', 'c', ' '],
                    opts: vec![
                        Opts {
                            ignore_space: false,
                            mgl: 0,
                        },
                        Opts {
                            ignore_space: true,
                            mgl: 0,
                        },
                    ],
                    k1: true,
                    mapping: None,
                    extra_sentences: vec![],
                });
            }
        }
    }
    out
}

pub fn lex_char_def() -> (Vec<Cat>, Vec<(u32, u32, Vec<usize>)>) {
    (
        vec![
            cat("DEFAULT", 0, 1, 0),
            cat("SPACE", 0, 1, 0),
            cat("AL", 1, 0, 2),
            cat("KJ", 0, 0, 1),
        ],
        vec![
            (0x20, 0x20, vec![1]),
            (0x3000, 0x3000, vec![1]),
            ('a' as u32, 'z' as u32, vec![2]),
            (0x3040, 0x309F, vec![3]),
        ],
    )
}

pub fn lex_unk_rows(nr: usize, nl: usize) -> Vec<UnkRow> {
    vec![
        unk(0, (1 % nl) as u16, (1 % nr) as u16, 300, "U-DEFAULT"),
        unk(1, 0, 0, 50, "U-SPACE"),
        unk(2, (2 % nl) as u16, (1 % nr) as u16, 120, "U-AL-1"),
        unk(2, (1 % nl) as u16, (2 % nr) as u16, 125, "U-AL-2,x"),
        unk(3, (2 % nl) as u16, (2 % nr) as u16, 90, "U-KJ"),
    ]
}

/// Lexicon menus of U-lex: (name, rows, extra alphabet). Ids are reduced modulo the dims later.
pub fn lex_menus() -> Vec<(&'static str, Vec<Row>, Vec<char>)> {
    vec![
        (
            "nested",
            vec![
                row("a", 1, 1, 30, "a"),
                row("ab", 2, 1, 45, "ab"),
                row("abc", 1, 2, 50, "abc"),
                row("c", 2, 2, 20, "c"),
            ],
            vec![],
        ),
        (
            "homographs",
            vec![
                row("a", 1, 1, 30, "a#1"),
                row("b", 2, 1, 30, "b"),
                row("a", 2, 2, 30, "a#2"),
                row("ab", 1, 2, 55, "ab"),
                row("a", 1, 2, 31, "a#3,x,y"),
            ],
            vec![],
        ),
        (
            "multibyte",
            vec![
                row("あ", 1, 1, 10, "hira"),
                row("aあ", 2, 1, 15, "a-hira"),
                row("😀", 1, 2, 12, "astral"),
                row("😀a", 2, 2, 40, "astral-a"),
                row("a", 1, 1, 35, "a"),
            ],
            vec!['あ', '😀'],
        ),
        (
            "space-comma",
            vec![
                row("a b", 1, 1, 10, "a-space-b"),
                row("a,b", 2, 1, 15, "\"a,b\",quoted"),
                row("b", 1, 2, 22, "b"),
                row("a ", 2, 2, 5, "a-trailing-space"),
                // quoted in the file because of the comma; the backslash is an ordinary character
                row("\\,", 1, 1, 8, "backslash-comma"),
            ],
            vec![',', '\\'],
        ),
        (
            // surfaces that begin with characters some text reader gives a meaning to
            "special",
            vec![
                row("#", 1, 1, 20, "hash"),
                row("#a", 2, 1, 15, "hash-a"),
                row("a", 1, 2, 30, "a"),
                row("\u{FF71}", 2, 2, 12, "halfwidth-a"),
                row("a#", 1, 1, 18, "a-hash"),
            ],
            vec!['#', '\u{FF71}'],
        ),
        (
            "extreme",
            vec![
                row("a", 1, 1, 32767, "a-max"),
                row("a", 2, 2, -32768, "a-min"),
                row("b", 1, 2, -32767, "b"),
                row("ab", 2, 1, 32767, "ab"),
            ],
            vec![],
        ),
    ]
}

pub fn lex_bigram(k: usize, nr: usize, nl: usize) -> Bigram {
    lex_bigram_scaled(k, nr, nl, 1)
}

/// Same model with every cost multiplied by `scale` (costs beyond the 16-bit range for the
/// raw connector; single costs stay below 2^15 for scale <= 500).
pub fn lex_bigram_scaled(k: usize, nr: usize, nl: usize, scale: i32) -> Bigram {
    let mut b = lex_bigram_unit(k, nr, nl);
    for c in b.cost.iter_mut() {
        c.2 *= scale;
    }
    b
}

fn lex_bigram_unit(k: usize, nr: usize, nl: usize) -> Bigram {
    // feature strings depend on (id, position) so that different ids share some strings
    let feat = |side: char, id: usize, p: usize| -> String {
        match (id + p) % 4 {
            0 => "*".to_string(),
            1 => format!("{side}{}", p % 3),
            2 => format!("{side}{}-{}", id % 2, p % 2),
            _ => format!("{side}x"),
        }
    };
    let mut right = vec![];
    for id in 1..nr {
        right.push((0..k).map(|p| feat('R', id, p)).collect::<Vec<_>>());
    }
    let mut left = vec![];
    for id in 1..nl {
        // ragged: the last row is one cell shorter
        let kk = if id == nl - 1 && k > 1 { k - 1 } else { k };
        left.push((0..kk).map(|p| feat('L', id, p)).collect::<Vec<_>>());
    }
    let mut cost = vec![];
    let mut seen = std::collections::BTreeSet::new();
    let mut n = 0i32;
    for r in 0..nr {
        for l in 0..nl {
            for p in 0..k {
                let fr = if r == 0 { String::new() } else { right[r - 1].get(p).cloned().unwrap_or("*".into()) };
                let fl = if l == 0 { String::new() } else { left[l - 1].get(p).cloned().unwrap_or("*".into()) };
                if fr == "*" || fl == "*" || (fr.is_empty() && fl.is_empty()) {
                    continue;
                }
                n += 1;
                if n % 3 == 0 {
                    continue; // leave about a third of the pairs unlisted
                }
                if seen.insert((fr.clone(), fl.clone())) {
                    let c = ((n * 37) % 61 - 30) * if n % 2 == 0 { 1 } else { -1 };
                    cost.push((fr, fl, c));
                }
            }
        }
    }
    Bigram { right, left, cost }
}

/// U-lex: lexicon / cost universe (C01, C02, C08 ...).
pub fn u_lex(tier: Tier) -> Vec<Universe> {
    let mut out = vec![];
    let (cats, ranges) = lex_char_def();
    let dims: Vec<(usize, usize)> = tier.pick(vec![(3, 3), (3, 4)], vec![(3, 3), (3, 4), (4, 3), (4, 4)]);
    for (xname, rows, extra) in lex_menus() {
        let mut conns: Vec<(String, usize, usize, Vec<i32>, ConnKind, Option<Bigram>)> = vec![];
        for &(nr, nl) in &dims {
            for style in 0..6 {
                if (nr, nl) != (3, 3) && style != 1 && style != 2 {
                    continue;
                }
                conns.push((
                    format!("matrix{nr}x{nl}s{style}"),
                    nr,
                    nl,
                    matrix_pattern(nr, nl, style),
                    ConnKind::Matrix,
                    None,
                ));
            }
        }
        for (k, kind) in [
            (3usize, ConnKind::Raw),
            (9, ConnKind::Raw),
            (9, ConnKind::Dual),
            (17, ConnKind::Dual),
        ] {
            let b = lex_bigram(k, 3, 3);
            let (nr, nl, t) = b.table();
            conns.push((format!("{kind:?}K{k}"), nr, nl, t, kind, Some(b)));
        }
        // connection costs far outside the 16-bit range (raw), sums outside it (dual), and
        // non-square id spaces for the compact connectors
        for (k, kind, nr, nl, scale) in [
            (3usize, ConnKind::Raw, 3usize, 3usize, 1500i32),
            (9, ConnKind::Dual, 3, 3, 500),
            (3, ConnKind::Raw, 5, 3, 700),
            (3, ConnKind::Raw, 3, 5, 1),
            (9, ConnKind::Dual, 5, 3, 1),
        ] {
            let b = lex_bigram_scaled(k, nr, nl, scale);
            let (nr, nl, t) = b.table();
            conns.push((format!("{kind:?}K{k}x{scale}/{nr}x{nl}"), nr, nl, t, kind, Some(b)));
        }
        for (cname, nr, nl, conn, kind, bigram) in conns {
            for with_user in [false, true] {
                for mapped in [false, true] {
                    // ids are spread over the whole id space when it is larger than 3x3
                    let sys: Vec<Row> = rows
                        .iter()
                        .enumerate()
                        .map(|(i, r)| Row {
                            left: if nl > 3 { (1 + (usize::from(r.left) + i) % (nl - 1)) as u16 } else { r.left % nl as u16 },
                            right: if nr > 3 { (1 + (usize::from(r.right) + 2 * i) % (nr - 1)) as u16 } else { r.right % nr as u16 },
                            ..r.clone()
                        })
                        .collect();
                    let user = if with_user {
                        Some(vec![
                            row("ab", (2 % nl) as u16, (2 % nr) as u16, 25, "user-ab"),
                            row("c", 1, 1, -5, "user-c"),
                            row("ab", 1, (2 % nr) as u16, 26, "user-ab#2"),
                        ])
                    } else {
                        None
                    };
                    let mut d = RefDict {
                        cats: cats.clone(),
                        ranges: ranges.clone(),
                        unk: lex_unk_rows(nr, nl),
                        sys,
                        user,
                        nr,
                        nl,
                        conn: conn.clone(),
                        kind,
                        bigram: bigram.clone(),
                        astral_takes_nul: false,
                default_line_pos: 0,
                    };
                    let mut name = format!("lex/{xname}/{cname}");
                    if with_user {
                        name.push_str("/user");
                    }
                    let mut lmap = None;
                    if mapped {
                        // rotate ids 1..n-1
                        let lm: Vec<u16> = (1..nl as u16).map(|i| if i + 1 < nl as u16 { i + 1 } else { 1 }).collect();
                        let rm: Vec<u16> = (1..nr as u16).rev().collect();
                        lmap = Some((lm, rm));
                        name.push_str("/mapped");
                    }
                    let mut alphabet = vec!['a', 'b', 'c', ' '];
                    alphabet.extend(extra.iter().cloned());
                    if extra.is_empty() {
                        alphabet.push('é');
                    }
                    let opts = vec![
                        Opts {
                            ignore_space: false,
                            mgl: 0,
                        },
                        Opts {
                            ignore_space: true,
                            mgl: 0,
                        },
                        Opts {
                            ignore_space: false,
                            mgl: 1,
                        },
                        Opts {
                            ignore_space: true,
                            mgl: 2,
                        },
                    ];
                    d.astral_takes_nul = false;
                    out.push(Universe {
                        name,
                        dict: d,
                        alphabet,
                        opts,
                        k1: false,
                        mapping: lmap,
                        extra_sentences: vec![],
                    });
                }
            }
        }
    }
    out
}



/// Sentences whose lengths straddle powers of two (31..=300 characters), built from a handful
/// of repetition patterns: a finite, completely enumerated family.
pub fn long_sentences(lengths: &[usize]) -> Vec<String> {
    let mut out = vec![];
    for &n in lengths {
        for x in ["a", "b", "c"] {
            out.push(x.repeat(n));
        }
        let mut ab = "ab".repeat(n / 2);
        if n % 2 == 1 {
            ab.push('a');
        }
        out.push(ab);
        out.push(format!("{}b", "a".repeat(n - 1)));
        out.push(format!("b{}", "a".repeat(n - 1)));
        out.push(format!("{}éa", "a".repeat(n - 2)));
        out.push(format!("é{}", "a".repeat(n - 1)));
        out.push(format!(" {}", "a".repeat(n - 1)));
        if n > 34 {
            out.push(format!("{} {}", "a".repeat(32), "a".repeat(n - 33)));
            out.push(format!("{}c{}", "ab".repeat(16), "a".repeat(n - 33)));
        }
    }
    out
}

/// Degenerate connectors: a single connection id on one or both sides (the only id is the
/// BOS/EOS id 0) with non-zero costs, so that every connection still counts.
pub fn u_single(_tier: Tier) -> Vec<Universe> {
    let mut out = vec![];
    let (cats, ranges) = lex_char_def();
    for (nr, nl, conn) in [
        (1usize, 1usize, vec![5]),
        (1, 1, vec![-7]),
        (1, 3, vec![4, -6, 9]),
        (3, 1, vec![3, -8, 11]),
    ] {
        for (xname, rows, extra) in lex_menus().into_iter().filter(|m| m.0 == "nested" || m.0 == "homographs") {
            let sys: Vec<Row> = rows.iter().map(|r| Row { left: r.left % nl as u16, right: r.right % nr as u16, ..r.clone() }).collect();
            let mut alphabet = vec!['a', 'b', 'c', ' '];
            alphabet.extend(extra);
            out.push(Universe {
                name: format!("single-id/{nr}x{nl}/{:?}/{xname}", conn),
                dict: RefDict {
                    cats: cats.clone(),
                    ranges: ranges.clone(),
                    unk: lex_unk_rows(nr, nl),
                    sys,
                    user: Some(vec![Row { surface: "bc".into(), left: 0, right: 0, cost: 7, feature: "user-bc".into() }]),
                    nr,
                    nl,
                    conn: conn.clone(),
                    kind: ConnKind::Matrix,
                    bigram: None,
                    astral_takes_nul: false,
                    default_line_pos: 0,
                },
                alphabet,
                opts: vec![Opts { ignore_space: false, mgl: 0 }, Opts { ignore_space: true, mgl: 1 }],
                k1: false,
                mapping: None,
                extra_sentences: vec![],
            });
        }
    }
    out
}

/// "Size axes": quantities beyond the small universes (nodes per boundary, homographs, unknown
/// entries, categories, sentence lengths), each crossing 16 / 256 style thresholds.
pub fn u_big(tier: Tier) -> Vec<Universe> {
    let mut out = vec![];
    let (cats, ranges) = lex_char_def();
    let plain = vec![Opts { ignore_space: false, mgl: 0 }, Opts { ignore_space: true, mgl: 2 }];
    let mk = |name: String, cats: Vec<Cat>, ranges: Vec<(u32, u32, Vec<usize>)>, unkrows: Vec<UnkRow>, sys: Vec<Row>, user: Option<Vec<Row>>, alphabet: Vec<char>, extra: Vec<String>| Universe {
        name,
        dict: RefDict {
            cats,
            ranges,
            unk: unkrows,
            sys,
            user,
            nr: 3,
            nl: 3,
            conn: matrix_pattern(3, 3, 1),
            kind: ConnKind::Matrix,
            bigram: None,
            astral_takes_nul: false,
            default_line_pos: 0,
        },
        alphabet,
        opts: plain.clone(),
        k1: false,
        mapping: None,
        extra_sentences: extra,
    };
    // 1. many homographs of one surface: more than 16 / 32 / 256 nodes ending at one boundary
    for n in tier.pick(vec![17usize, 33, 257], vec![16, 17, 33, 255, 256, 257, 300]) {
        let mut sys: Vec<Row> = (0..n).map(|i| row("a", 1 + (i % 2) as u16, 1 + ((i / 2) % 2) as u16, 200 + (i % 97) as i16, &format!("hom{i},padding-padding-padding-{i}"))).collect();
        sys[n - 1].cost = 1; // the cheapest homograph is the last one
        sys[n / 2].cost = 2;
        sys.push(row("ab", 2, 1, 150, "ab"));
        sys.push(row("b", 1, 2, 90, "b"));
        out.push(mk(format!("big/homographs-{n}"), cats.clone(), ranges.clone(), lex_unk_rows(3, 3), sys.clone(), None, vec!['a', 'b'], vec![]));
        // the same rows as a user lexicon
        out.push(mk(format!("big/user-homographs-{n}"), cats.clone(), ranges.clone(), lex_unk_rows(3, 3), vec![row("b", 1, 2, 90, "b")], Some(sys), vec!['a', 'b'], vec![]));
    }
    // 2. many unknown entries of one category
    for n in tier.pick(vec![17usize, 257], vec![17, 256, 257, 300]) {
        let mut u = vec![unk(0, 1, 1, 300, "U-DEFAULT"), unk(1, 0, 0, 50, "U-SPACE"), unk(3, 2, 2, 90, "U-KJ")];
        for i in 0..n {
            u.push(unk(2, 1 + (i % 2) as u16, 1 + ((i / 3) % 2) as u16, if i == n - 1 { 3 } else { 400 + (i % 50) as i16 }, &format!("UAL{i}")));
        }
        out.push(mk(format!("big/unk-entries-{n}"), cats.clone(), ranges.clone(), u, vec![row("b", 1, 2, 90, "b")], None, vec!['a', 'b'], vec![]));
    }
    // 3. the maximum number of categories, characters in the last ones
    {
        let mut c18 = vec![cat("DEFAULT", 0, 1, 0), cat("SPACE", 0, 1, 0)];
        for i in 2..18u16 {
            c18.push(cat(&format!("C{i}"), (i % 2) as u8, ((i / 2) % 2) as u8, i % 3));
        }
        let r18 = vec![(0x20u32, 0x20u32, vec![1usize]), ('a' as u32, 'a' as u32, vec![16]), ('b' as u32, 'b' as u32, vec![17]), ('c' as u32, 'c' as u32, vec![17, 3]), ('d' as u32, 'd' as u32, vec![15, 16])];
        let u18: Vec<UnkRow> = (0..18).map(|i| unk(i, (i % 3) as u16, ((i + 1) % 3) as u16, 100 + i as i16, &format!("u{i}"))).collect();
        out.push(mk("big/categories-18".into(), c18, r18, u18, vec![row("ab", 1, 1, 70, "ab")], None, vec!['a', 'b', 'c', 'd', ' '], vec![]));
    }
    // 3b. many connection ids (more than 32 / 64 per side), one single-letter word per id pair
    for (nr, nl) in [(34usize, 35usize), (66, 65)] {
        let mut conn = vec![0i32; nr * nl];
        for r in 0..nr {
            for l in 0..nl {
                conn[r * nl + l] = ((r * 31 + l * 17) % 23) as i32 - 11 + if r == nr - 1 && l == nl - 1 { 500 } else { 0 };
            }
        }
        let letters: Vec<char> = "abcdefghijklmnopqrstuvwxyz".chars().collect();
        let mut sys = vec![];
        for i in 0..nr.max(nl) {
            let s: String = if i < 26 { letters[i].to_string() } else { format!("{}{}", letters[i / 26], letters[i % 26]) };
            sys.push(row(&s, (1 + i % (nl - 1)) as u16, (1 + (i * 7) % (nr - 1)) as u16, 20 + (i % 5) as i16, &format!("w{i}")));
        }
        sys.push(row("zz", (nl - 1) as u16, (nr - 1) as u16, 3, "last-ids"));
        let mut u = mk(format!("big/conn-ids-{nr}x{nl}"), cats.clone(), ranges.clone(), vec![unk(0, 1, 1, 300, "U-DEFAULT"), unk(1, 0, 0, 50, "U-SPACE"), unk(2, (nl - 1) as u16, (nr - 1) as u16, 400, "U-AL"), unk(3, 2, 2, 90, "U-KJ")], sys, None, vec!['a', 'z'], vec!["abcdefghijklmnopqrstuvwxyz".to_string(), "zzazz".to_string(), "abacadaeafagahaiajakalamanaoapaqarasatauavawaxayaz".to_string()]);
        u.dict.nr = nr;
        u.dict.nl = nl;
        u.dict.conn = conn;
        out.push(u.clone());
        // and with a reversing id mapping
        u.name.push_str("/mapped");
        u.mapping = Some(((1..nl as u16).rev().collect(), (1..nr as u16).map(|i| if usize::from(i) + 1 < nr { i + 1 } else { 1 }).collect()));
        out.push(u);
    }
    // 4. long sentences on three small dictionaries
    let lens = tier.pick(vec![31usize, 32, 33, 64, 65, 255, 256, 257], vec![31, 32, 33, 34, 63, 64, 65, 127, 128, 129, 255, 256, 257, 300]);
    let longs = long_sentences(&lens);
    let ul = u_lex(Tier::Quick);
    if let Some(u) = ul.iter().find(|u| u.name == "lex/nested/matrix3x3s1") {
        let mut u = u.clone();
        u.name = "big/long/lex-nested".into();
        u.alphabet = vec!['a'];
        u.extra_sentences = longs.clone();
        out.push(u);
    }
    let uu = u_unk(Tier::Quick);
    for nm in ["unk/chain/T=012/U#0/mult2/a+ab", "unk/single/T=113/U#1/mult1/a", "unk/single/T=110/U#0/mult1/nomatch"] {
        if let Some(u) = uu.iter().find(|u| u.name == nm) {
            let mut u = u.clone();
            u.name = format!("big/long/{nm}");
            u.alphabet = vec!['a'];
            u.opts = vec![Opts { ignore_space: false, mgl: 0 }, Opts { ignore_space: true, mgl: 0 }, Opts { ignore_space: false, mgl: 255 }, Opts { ignore_space: false, mgl: 256 }];
            u.extra_sentences = longs.clone();
            out.push(u);
        }
    }
    out
}
