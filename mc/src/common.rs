//! Shared machinery: tiers, panic capture, parallel exploration, violation / known-finding
//! bookkeeping, evidence and replay files.
use std::cell::RefCell;
use std::collections::{BTreeMap, BTreeSet};
use std::panic::{catch_unwind, AssertUnwindSafe};
use std::sync::atomic::{AtomicUsize, Ordering};
use std::sync::Mutex;
use std::time::Instant;

use serde_json::{json, Value};

pub const VERIF_DIR: &str = "/verif";

#[derive(Clone, Copy, PartialEq, Eq, Debug)]
pub enum Tier {
    Quick,
    Thorough,
}

impl Tier {
    pub fn name(self) -> &'static str {
        match self {
            Tier::Quick => "quick",
            Tier::Thorough => "thorough",
        }
    }
    pub fn pick<T>(self, quick: T, thorough: T) -> T {
        match self {
            Tier::Quick => quick,
            Tier::Thorough => thorough,
        }
    }
}

thread_local! {
    static LAST_PANIC: RefCell<Option<String>> = const { RefCell::new(None) };
}

pub fn install_panic_hook() {
    std::panic::set_hook(Box::new(|info| {
        let loc = info
            .location()
            .map(|l| format!("{}:{}", l.file(), l.line()))
            .unwrap_or_default();
        let msg = if let Some(s) = info.payload().downcast_ref::<&str>() {
            s.to_string()
        } else if let Some(s) = info.payload().downcast_ref::<String>() {
            s.clone()
        } else {
            "<non-string panic>".to_string()
        };
        let loc = loc.replace("/repo/", "");
        LAST_PANIC.with(|p| *p.borrow_mut() = Some(format!("{loc}: {msg}")));
    }));
}

/// Runs `f`, turning a panic into `Err("file:line: message")`.
pub fn guard<T>(f: impl FnOnce() -> T) -> Result<T, String> {
    LAST_PANIC.with(|p| *p.borrow_mut() = None);
    match catch_unwind(AssertUnwindSafe(f)) {
        Ok(v) => Ok(v),
        Err(_) => Err(LAST_PANIC
            .with(|p| p.borrow_mut().take())
            .unwrap_or_else(|| "<panic>".to_string())),
    }
}

/// Panic site without the message (used as symptom class).
pub fn panic_site(p: &str) -> String {
    // "vibrato/src/x.rs:12: msg" -> "vibrato/src/x.rs:12"
    let mut it = p.splitn(3, ':');
    let a = it.next().unwrap_or("");
    let b = it.next().unwrap_or("");
    format!("{a}:{b}")
}

/// One problem found by a check, before classification against the known findings.
#[derive(Clone, Debug)]
pub struct Finding {
    /// Symptom class: violations are de-duplicated (for printing) per class.
    pub class: String,
    /// Short human description.
    pub what: String,
    /// Everything needed to replay the case.
    pub replay: Value,
}

/// Per-run accumulator. One per worker thread, merged at the end.
#[derive(Default)]
pub struct Stats {
    pub states: u64,
    pub transitions: u64,
    pub counters: BTreeMap<String, u64>,
    pub distinct: BTreeSet<u64>,
    pub violations: Vec<Finding>,
    pub violation_count: u64,
    pub violation_classes: BTreeMap<String, u64>,
    pub known: BTreeMap<String, (u64, String)>,
    pub samples: Vec<Value>,
    pub notes: Vec<String>,
}

pub const MAX_KEPT_PER_CLASS: u64 = 2;

impl Stats {
    pub fn count(&mut self, key: &str) {
        *self.counters.entry(key.to_string()).or_insert(0) += 1;
    }
    pub fn add(&mut self, key: &str, n: u64) {
        *self.counters.entry(key.to_string()).or_insert(0) += n;
    }
    pub fn get(&self, key: &str) -> u64 {
        self.counters.get(key).copied().unwrap_or(0)
    }
    pub fn outcome<H: std::hash::Hash>(&mut self, h: &H) {
        use std::hash::Hasher;
        let mut s = std::collections::hash_map::DefaultHasher::new();
        h.hash(&mut s);
        if self.distinct.len() < 2_000_000 {
            self.distinct.insert(s.finish());
        }
    }
    pub fn violation(&mut self, f: Finding) {
        self.violation_count += 1;
        let c = self.violation_classes.entry(f.class.clone()).or_insert(0);
        *c += 1;
        if *c <= MAX_KEPT_PER_CLASS {
            self.violations.push(f);
        }
    }
    pub fn known(&mut self, id: &str, what: &str) {
        let e = self
            .known
            .entry(id.to_string())
            .or_insert((0, what.to_string()));
        e.0 += 1;
    }
    pub fn sample(&mut self, v: Value) {
        if self.samples.len() < 6 {
            self.samples.push(v);
        }
    }
    pub fn merge(&mut self, o: Stats) {
        self.states += o.states;
        self.transitions += o.transitions;
        for (k, v) in o.counters {
            *self.counters.entry(k).or_insert(0) += v;
        }
        for d in o.distinct {
            if self.distinct.len() < 2_000_000 {
                self.distinct.insert(d);
            }
        }
        self.violation_count += o.violation_count;
        for (k, v) in o.violation_classes {
            *self.violation_classes.entry(k).or_insert(0) += v;
        }
        for f in o.violations {
            let kept = self
                .violations
                .iter()
                .filter(|x| x.class == f.class)
                .count() as u64;
            if kept < MAX_KEPT_PER_CLASS {
                self.violations.push(f);
            }
        }
        for (k, (n, w)) in o.known {
            let e = self.known.entry(k).or_insert((0, w));
            e.0 += n;
        }
        for s in o.samples {
            if self.samples.len() < 6 {
                self.samples.push(s);
            }
        }
        self.notes.extend(o.notes);
    }
}

pub fn num_threads() -> usize {
    std::env::var("VMC_THREADS")
        .ok()
        .and_then(|s| s.parse().ok())
        .unwrap_or_else(|| {
            std::thread::available_parallelism()
                .map(|n| n.get())
                .unwrap_or(4)
        })
}

/// Runs `work(i, &mut stats)` for every `i in 0..n` on all cores; deterministic result
/// (stats are merged in task order is not needed: all merges are commutative except sample
/// order, which is sorted afterwards by the caller when it matters).
pub fn par_explore<F>(n: usize, work: F) -> Stats
where
    F: Fn(usize, &mut Stats) + Sync,
{
    let next = AtomicUsize::new(0);
    let total = Mutex::new(Stats::default());
    let nt = num_threads().min(n.max(1));
    std::thread::scope(|s| {
        for _ in 0..nt {
            s.spawn(|| {
                let mut st = Stats::default();
                loop {
                    let i = next.fetch_add(1, Ordering::Relaxed);
                    if i >= n {
                        break;
                    }
                    if let Err(p) = guard(|| work(i, &mut st)) {
                        // A panic outside a guarded subject call is a harness bug.
                        eprintln!("MACHINERY: harness panic in task {i}: {p}");
                        std::process::exit(2);
                    }
                }
                total.lock().unwrap().merge(st);
            });
        }
    });
    total.into_inner().unwrap()
}

/// All strings over `alphabet` with length `0..=max_len`, shortest first.
pub fn all_strings(alphabet: &[char], max_len: usize) -> Vec<String> {
    let mut out = vec![String::new()];
    let mut frontier = vec![String::new()];
    for _ in 0..max_len {
        let mut next = Vec::with_capacity(frontier.len() * alphabet.len());
        for s in &frontier {
            for &c in alphabet {
                let mut t = s.clone();
                t.push(c);
                next.push(t);
            }
        }
        out.extend(next.iter().cloned());
        frontier = next;
    }
    out
}

/// All sequences over `0..k` with length `0..=max_len`, shortest first.
pub fn all_seqs(k: usize, max_len: usize) -> Vec<Vec<usize>> {
    let mut out = vec![vec![]];
    let mut frontier: Vec<Vec<usize>> = vec![vec![]];
    for _ in 0..max_len {
        let mut next = Vec::with_capacity(frontier.len() * k);
        for s in &frontier {
            for c in 0..k {
                let mut t = s.clone();
                t.push(c);
                next.push(t);
            }
        }
        out.extend(next.iter().cloned());
        frontier = next;
    }
    out
}

#[derive(Clone, Debug)]
pub struct KnownFinding {
    pub id: String,
    pub property: String,
    pub status: String,
    pub what: String,
}

pub fn load_known_findings() -> Vec<KnownFinding> {
    let path = format!("{VERIF_DIR}/known_findings.json");
    let txt = std::fs::read_to_string(&path).unwrap_or_else(|_| "{\"findings\":[]}".to_string());
    let v: Value = serde_json::from_str(&txt).unwrap_or_else(|e| {
        eprintln!("MACHINERY: cannot parse {path}: {e}");
        std::process::exit(2);
    });
    let mut out = vec![];
    for f in v["findings"].as_array().cloned().unwrap_or_default() {
        out.push(KnownFinding {
            id: f["id"].as_str().unwrap_or("").to_string(),
            property: f["property"].as_str().unwrap_or("").to_string(),
            status: f["status"].as_str().unwrap_or("").to_string(),
            what: f["what"].as_str().unwrap_or("").to_string(),
        });
    }
    out
}

/// Is the finding `id` listed as *open* for `property`?
pub fn is_open(kf: &[KnownFinding], property: &str, id: &str) -> bool {
    kf.iter()
        .any(|k| k.id == id && k.property == property && k.status == "open")
}

pub struct Report {
    pub property: String,
    pub tier: Tier,
    pub seed: i64,
    pub start: Instant,
    pub rule: String,
    pub bounds: Value,
    pub assumptions: Vec<String>,
    pub exhaustive: bool,
    pub cap_note: Option<String>,
}

impl Report {
    pub fn new(property: &str, tier: Tier) -> Self {
        let seed = std::env::var("VERIF_SEED")
            .ok()
            .and_then(|s| s.parse().ok())
            .unwrap_or(0);
        Report {
            property: property.to_string(),
            tier,
            seed,
            start: Instant::now(),
            rule: String::new(),
            bounds: json!({}),
            assumptions: vec![],
            exhaustive: true,
            cap_note: None,
        }
    }

    /// Writes replay files, prints VIOLATION / KNOWN-FINDING lines, writes evidence and
    /// returns the process exit code.
    pub fn finish(self, st: Stats, required_nonzero: &[&str]) -> i32 {
        let wall = self.start.elapsed().as_secs_f64();
        let _ = std::fs::create_dir_all(format!("{VERIF_DIR}/replays"));
        let _ = std::fs::create_dir_all(format!("{VERIF_DIR}/evidence"));
        let mut vacuous = vec![];
        for k in required_nonzero {
            if st.get(k) == 0 {
                vacuous.push(k.to_string());
            }
        }
        // remove replay files of earlier runs of this check
        if let Ok(rd) = std::fs::read_dir(format!("{VERIF_DIR}/replays")) {
            let prefix = format!("{}-{}-", self.property, self.tier.name());
            for e in rd.flatten() {
                if e.file_name().to_string_lossy().starts_with(&prefix) {
                    let _ = std::fs::remove_file(e.path());
                }
            }
        }
        let mut printed = 0;
        let mut replay_paths = vec![];
        for (i, f) in st.violations.iter().enumerate() {
            let path = format!(
                "{VERIF_DIR}/replays/{}-{}-{:03}.json",
                self.property,
                self.tier.name(),
                i
            );
            let body = json!({
                "property": self.property,
                "class": f.class,
                "what": f.what,
                "case": f.replay,
            });
            let _ = std::fs::write(&path, serde_json::to_string_pretty(&body).unwrap());
            if printed < 10 {
                println!("VIOLATION property={} replay={}", self.property, path);
                println!("  class: {}", f.class);
                println!("  what:  {}", f.what);
                printed += 1;
            }
            replay_paths.push(path);
        }
        for (id, (n, what)) in &st.known {
            println!(
                "KNOWN-FINDING: property={} {} [{}; seen {} times in this run]",
                self.property, what, id, n
            );
        }
        let mut counters = serde_json::Map::new();
        for (k, v) in &st.counters {
            counters.insert(k.clone(), json!(v));
        }
        let mut samples = st.samples.clone();
        if samples.is_empty() {
            samples.push(json!("(no sample recorded)"));
        }
        let ev = json!({
            "property_id": self.property,
            "tier": self.tier.name(),
            "seed": self.seed,
            "level": "model_checking",
            "coverage": {
                "states": st.states.max(1),
                "transitions": st.transitions.max(1),
                "traces_validated_against_impl": st.states,
                "samples": samples,
                "exhaustive": self.exhaustive && self.cap_note.is_none(),
                "cap": self.cap_note,
                "evaluations": st.states.max(1),
                "distinct_nontrivial": st.distinct.len(),
                "rule": self.rule,
                "bounds": self.bounds,
                "counters": Value::Object(counters),
                "vacuous_counters": vacuous,
                "violation_classes": st.violation_classes,
                "known_findings_seen": st.known.iter().map(|(k, v)| json!({"id": k, "count": v.0})).collect::<Vec<_>>(),
                "notes": st.notes,
                "explanation": "every state is an execution of the real implementation compared with the reference model; no sampling",
            },
            "assumptions": self.assumptions,
            "wall_s": wall,
            "violations": st.violation_count,
        });
        let evpath = format!("{VERIF_DIR}/evidence/{}.json", self.property);
        if let Err(e) = std::fs::write(&evpath, serde_json::to_string_pretty(&ev).unwrap()) {
            eprintln!("MACHINERY: cannot write {evpath}: {e}");
            return 2;
        }
        println!(
            "{} {}: states={} transitions={} distinct_outcomes={} violations={} known={} wall={:.1}s",
            self.property,
            self.tier.name(),
            st.states,
            st.transitions,
            st.distinct.len(),
            st.violation_count,
            st.known.len(),
            wall
        );
        for (k, v) in &st.counters {
            println!("  {k} = {v}");
        }
        if st.violation_count > 0 {
            return 1;
        }
        if !vacuous.is_empty() {
            eprintln!(
                "MACHINERY: vacuous exploration, counters at zero: {:?}",
                vacuous
            );
            return 2;
        }
        0
    }
}

pub fn esc(s: &str) -> String {
    s.chars()
        .flat_map(|c| {
            if c == '\0' {
                "\\0".chars().collect::<Vec<_>>()
            } else {
                vec![c]
            }
        })
        .collect()
}
