//! Compile-time half of C04: "The tokenizer can be shared across threads."
//! If this crate stops compiling with a Send/Sync error while the library itself still builds,
//! the property is violated.
fn assert_send_sync<T: Send + Sync>() {}
fn assert_send<T: Send>() {}

fn main() {
    assert_send_sync::<vibrato::Tokenizer>();
    assert_send_sync::<vibrato::Dictionary>();
    assert_send::<vibrato::tokenizer::worker::Worker<'static>>();
    // a worker borrowed from a shared tokenizer can be moved to another thread
    let _ = |t: &'static vibrato::Tokenizer| {
        std::thread::spawn(move || {
            let mut w = t.new_worker();
            w.reset_sentence("");
            w.tokenize();
        })
    };
}
