#!/bin/bash
# Worktree-side confirmation of a round of seeded changes under /tmp/wt/C01..C20 (each with
# _out/patch.diff and _out/demo_Cxx.rs): demo passes without the patch, fails with it, and the
# 103 unit tests + 4 doctests pass with it. Logs to /tmp/r4/confirm_Cxx.log.
mkdir -p /tmp/r4
# phase 1: worktree-side confirmation only
export CARGO_NET_OFFLINE=true
for i in $(seq -w 1 20); do
  id=C$i; WT=/tmp/wt/$id; PATCH=$WT/_out/patch.diff; DEMO=$WT/_out/demo_$id.rs
  cd $WT || continue
  git checkout -q -- . ; git clean -fdq vibrato/tests 2>/dev/null
  mkdir -p vibrato/tests; cp $DEMO vibrato/tests/demo_$id.rs
  {
  echo "== demo WITHOUT patch"
  cargo test -p vibrato --offline --test demo_$id 2>&1 | grep -E "^test result|error(\[|:)" | head -3
  git apply $PATCH || echo "PATCH DOES NOT APPLY"
  echo "== demo WITH patch"
  cargo test -p vibrato --offline --test demo_$id 2>&1 | grep -E "^test result|error(\[|:)" | head -3
  echo "== unit tests WITH patch"
  cargo test -p vibrato --offline --lib 2>&1 | grep -E "^test result|error(\[|:)" | head -3
  cargo test -p vibrato --offline --doc 2>&1 | grep -E "^test result|error(\[|:)" | head -3
  } > /tmp/r4/confirm_$id.log 2>&1
  git checkout -q -- . ; rm -f vibrato/tests/demo_$id.rs
  echo "$id confirmed-phase done"
done
