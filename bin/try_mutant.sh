#!/bin/bash
# usage: bin/try_mutant.sh <seeded dir name> <check ids...>   applies the seeded patch to /repo, runs the quick checks, reverts
set -u
D=/verif/seeded/$1; shift
cd /repo || exit 2
if [ -n "$(git status --porcelain --untracked-files=no)" ]; then echo "/repo not clean"; exit 2; fi
git apply "$D/patch.diff" || { echo "PATCH DOES NOT APPLY"; exit 2; }
for id in "$@"; do
  echo "== $id on $(basename $D)"
  /verif/bin/check $id quick | grep -E "VIOLATION|MACHINERY|class:|^C[0-9]+ quick" | head -${HEADN:-6}
done
git checkout -q -- .
git status --porcelain --untracked-files=no
