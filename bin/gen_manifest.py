#!/usr/bin/env python3
"""Regenerates /verif/MANIFEST.json from the table below."""
import json, subprocess

CHECKS = {
 "C01": ("E1 input-tree explorer", "4.C01",
   "Every sentence up to the length bound over 5-6 character alphabets (1-4 byte UTF-8, astral, U+0000, space) is tokenized by the real code for every dictionary of the unknown-word, lexicon/cost, U+0000 and missing-unk-entry families and every option setting; each result is checked structurally (order, ranges, byte offsets, surface, named entry, coverage / SPACE gaps, token_iter agreement, no panic). Bounded-exhaustive: holds for all inputs inside the bounds, nothing sampled.",
   "reference category table computed from the structured char.def; dependencies (crawdad, bincode) trusted; sentences beyond the bound not covered",
   "bounded exhaustive input enumeration against a reference model (small-scope explicit-state exploration of the real code)"),
 "C02": ("E1 input-tree explorer + lattice hook", "4.C02",
   "For every sentence within the bound and every dictionary of the lexicon/cost family (matrix, raw and dual connectors, user lexicon, id mapping) the full lattice is dumped; the reported path must equal the minimum over all paths through the real candidate set (suffix-memo minimum cross-checked by explicit enumeration of all paths), total_cost must be the prefix sum, and every node's stored minimum must satisfy the recurrence.",
   "connection costs taken from the structured matrix / the string-level bigram sum, not from the code under test; costs stay far inside i32",
   "bounded exhaustive input enumeration; all-paths minimum as oracle"),
 "C03": ("E1 input-tree explorer + lattice and char-info hooks", "4.C03",
   "For all 16 invoke/group/length settings x 6 category layouts x unk multiplicities x lexicons x max_grouping_len x ignore_space and all sentences within the bound, the multiset of lattice nodes equals the candidate set computed from the statement; the character table is compared on all range bounds +-1, U+0000, U+FFFF and astral probes.",
   "the scan structure under ignore_space (which boundary a word after a gap connects to) follows the implementation where no property fixes it",
   "bounded exhaustive input enumeration against a reference candidate generator"),
 "C04": ("E2 operation-history explorer + E3 preemption-bounded scheduler", "4.C04",
   "All histories of one worker over {reset_sentence(s) for 6 sentences, tokenize} up to depth 5/7 are executed on a real worker and compared with the reference state machine; all interleavings of 2-3 real OS threads (own worker each, one shared tokenizer) at the instrumented yield points with at most 2/3 preemptions are executed under a baton scheduler and each thread's observations compared with the sequential ones; a failing schedule is replayed twice.",
   "yield points sit at entry/exit/inside reset_sentence and tokenize and at every lattice position; memory-ordering effects are not modelled; threads blocked on real locks are detected through /proc and treated as disabled",
   "stateless model checking of real threads under a controlled scheduler (iterative context bounding) + bounded exhaustive operation-history enumeration"),
 "C05": ("E2 lock-step bisimulation + E5 dual build", "4.C05",
   "For every dictionary reached by a history of depth <= 2 over {load user x2, clear, map x4, write->read} on 4 connector variants, the instance is written, re-read, re-written (bytes and reported length compared) and then run in lock-step with its reloaded twin under every continuation of depth <= 2/3, comparing op outcomes, images, the whole connection table and the tokens of all sentences <= 4/5 chars; images and observation tables are exchanged between the portable and the AVX2 build in both directions.",
   "the dual connector's template split depends on hash order, so a twin is always reloaded from the very instance it is compared with",
   "explicit-state exploration of operation histories with a bisimulation oracle"),
 "C06": ("E2 operation-history explorer + conn-cost hook", "4.C06",
   "All histories of depth <= 3/4 over {map x4, load user x2, clear, write->read} containing a map, on matrix/raw/dual dictionaries with 4 ids per side: the mapped dictionary must equal the never-mapped twin on every token field of all sentences <= 4/5 chars (ids through the composed permutation) and its connection table must be the permuted structural table; all 36 permutation pairs for a single map; every mapping iterator over {0..n} of length 0..n+1 must be accepted iff it is a permutation of 1..n-1 and never panic.",
   "tie-breaking is positional and independent of ids, so exact token equality with the twin is implied by the statement",
   "explicit-state exploration of operation histories against a reference state (composed permutation) and a differential twin"),
 "C08": ("E1 + E2 + lattice hook", "4.C08",
   "For every lexicon/cost dictionary with each of 3 user lexicons, option setting and sentence <= 5/6 chars, lattice candidates and optimal cost equal those of the dictionary whose system lexicon is extended by the same rows; all load/replace/clear histories to depth 3/4 (also on a mapped dictionary) behave like the canonical history; user rows with ids in {0,n-1,n,n+1,65535}^2 and malformed CSVs are accepted iff valid, in 5 contexts, never panicking.",
   "candidate equality is modulo lexicon type and word id, as the statement says",
   "bounded exhaustive input and history enumeration with a differential oracle"),
}

NOT_YET = {}

def main():
    props = [json.loads(l) for l in open('/verif/properties.jsonl')]
    checks = []
    na = []
    for p in props:
        pid = p['id']
        if pid in CHECKS:
            engine, ref, text, note, tech = CHECKS[pid]
            checks.append({
                "property_id": pid,
                "quick_cmd": f"bin/check {pid} quick",
                "thorough_cmd": f"bin/check {pid} thorough",
                "evidence_file": f"/verif/evidence/{pid}.json",
                "replay_cmd_template": "mc/../target/release/vmc replay {path}",
                "engine": engine,
                "level_claimed": {"category": "model_checking", "text": text, "design_ref": ref},
                "level_note": note,
                "technique": tech,
            })
        else:
            na.append({"property_id": pid, "reason": NOT_YET.get(pid, "check not built yet in this round (planned in DESIGN.md section 4); not claimed")})
    commits = subprocess.run(["git","-C","/repo","log","--format=%h %s"],capture_output=True,text=True).stdout.splitlines()
    hook_commits = [c.split()[0] for c in commits if c.split(' ',1)[1].startswith('verif:')]
    m = {
      "version": 1,
      "setup_cmd": "bin/setup",
      "hooks": {
        "guard": "--cfg vibrato_verif",
        "enable": "RUSTFLAGS=\"--cfg vibrato_verif\" via /verif/mc/.cargo/config.toml; the harness crate path-depends on /repo/vibrato so every check rebuilds the working tree",
        "baseline_off_cmd": "cd /repo && cargo test --workspace --no-fail-fast --offline",
        "source_commits": hook_commits,
        "add_only": True,
      },
      "engines": [
        {"name": "vmc", "path": "/verif/mc", "serves_properties": sorted(CHECKS), "kind_free_text": "Rust harness: explicit-state / small-scope exhaustive exploration of the real implementation (input trees, operation histories, crash prefixes, schedules) against reference models"},
      ],
      "checks": checks,
      "not_applicable": na,
      "notes": "exit 2 = machinery failure (build error, vacuous universe), never a verdict. Known findings: /verif/known_findings.json.",
    }
    json.dump(m, open('/verif/MANIFEST.json','w'), indent=1)
    print("checks:", [c['property_id'] for c in checks])

main()
