#!/usr/bin/env python3
"""Regenerates /verif/MANIFEST.json from the table below."""
import json, subprocess

CHECKS = {
 "C01": ("E1 input-tree explorer", "4.C01",
   "Every sentence up to the length bound over 5-6 character alphabets (1-4 byte UTF-8, astral, U+0000, space) is tokenized by the real code for every dictionary of the unknown-word, lexicon/cost, U+0000 and missing-unk-entry families and every option setting; each result is checked structurally (order, ranges, byte offsets, surface, named entry, coverage / SPACE gaps, token_iter agreement, no panic). Bounded-exhaustive: holds for all inputs inside the bounds, nothing sampled.",
   "reference category table computed from the structured char.def; dependencies (crawdad, bincode) trusted; sentences beyond the bound not covered",
   "bounded exhaustive input enumeration against a reference model (small-scope explicit-state exploration of the real code)"),
 "C02": ("E1 input-tree explorer + lattice hook", "4.C02",
   "For every sentence within the bound and every dictionary of the lexicon/cost family (matrix, raw and dual connectors, user lexicon, id mapping) the full lattice is dumped; the reported path must equal the minimum over all paths through the real candidate set (suffix-memo minimum cross-checked by explicit enumeration of all paths), total_cost must be the prefix sum, and every node's stored minimum must satisfy the recurrence.",
   "connection costs taken from the structured matrix / the string-level bigram sum, not from the code under test; costs stay far inside i32",
   "bounded exhaustive input enumeration; all-paths minimum as oracle"),
 "C03": ("E1 input-tree explorer + lattice and char-info hooks", "4.C03",
   "For all 16 invoke/group/length settings x 6 category layouts x unk multiplicities x lexicons x max_grouping_len x ignore_space and all sentences within the bound, the multiset of lattice nodes equals the candidate set computed from the statement; the character table is compared on all range bounds +-1, U+0000, U+FFFF and astral probes.",
   "the scan structure under ignore_space (which boundary a word after a gap connects to) follows the implementation where no property fixes it",
   "bounded exhaustive input enumeration against a reference candidate generator"),
}

NOT_YET = {}

def main():
    props = [json.loads(l) for l in open('/verif/properties.jsonl')]
    checks = []
    na = []
    for p in props:
        pid = p['id']
        if pid in CHECKS:
            engine, ref, text, note, tech = CHECKS[pid]
            checks.append({
                "property_id": pid,
                "quick_cmd": f"bin/check {pid} quick",
                "thorough_cmd": f"bin/check {pid} thorough",
                "evidence_file": f"/verif/evidence/{pid}.json",
                "replay_cmd_template": "mc/../target/release/vmc replay {path}",
                "engine": engine,
                "level_claimed": {"category": "model_checking", "text": text, "design_ref": ref},
                "level_note": note,
                "technique": tech,
            })
        else:
            na.append({"property_id": pid, "reason": NOT_YET.get(pid, "check not built yet in this round (planned in DESIGN.md section 4); not claimed")})
    commits = subprocess.run(["git","-C","/repo","log","--format=%h %s"],capture_output=True,text=True).stdout.splitlines()
    hook_commits = [c.split()[0] for c in commits if c.split(' ',1)[1].startswith('verif:')]
    m = {
      "version": 1,
      "setup_cmd": "bin/setup",
      "hooks": {
        "guard": "--cfg vibrato_verif",
        "enable": "RUSTFLAGS=\"--cfg vibrato_verif\" via /verif/mc/.cargo/config.toml; the harness crate path-depends on /repo/vibrato so every check rebuilds the working tree",
        "baseline_off_cmd": "cd /repo && cargo test --workspace --no-fail-fast --offline",
        "source_commits": hook_commits,
        "add_only": True,
      },
      "engines": [
        {"name": "vmc", "path": "/verif/mc", "serves_properties": sorted(CHECKS), "kind_free_text": "Rust harness: explicit-state / small-scope exhaustive exploration of the real implementation (input trees, operation histories, crash prefixes, schedules) against reference models"},
      ],
      "checks": checks,
      "not_applicable": na,
      "notes": "exit 2 = machinery failure (build error, vacuous universe), never a verdict. Known findings: /verif/known_findings.json.",
    }
    json.dump(m, open('/verif/MANIFEST.json','w'), indent=1)
    print("checks:", [c['property_id'] for c in checks])

main()
