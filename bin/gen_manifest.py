#!/usr/bin/env python3
"""Regenerates /verif/MANIFEST.json from the table below."""
import json, subprocess

CHECKS = {
 "C01": ("E1 input-tree explorer", "4.C01",
   "Every sentence up to the length bound over 5-6 character alphabets (1-4 byte UTF-8, astral, U+0000, space) is tokenized by the real code for every dictionary of the unknown-word, lexicon/cost, U+0000 and missing-unk-entry families and every option setting; each result is checked structurally (order, ranges, byte offsets, surface, named entry, coverage / SPACE gaps, token_iter agreement, no panic). Bounded-exhaustive: holds for all inputs inside the bounds, nothing sampled.",
   "reference category table computed from the structured char.def; dependencies (crawdad, bincode) trusted; sentences beyond the bound not covered",
   "bounded exhaustive input enumeration against a reference model (small-scope explicit-state exploration of the real code)"),
 "C02": ("E1 input-tree explorer + lattice hook", "4.C02",
   "For every sentence within the bound and every dictionary of the lexicon/cost family (matrix, raw and dual connectors, user lexicon, id mapping) the full lattice is dumped; the reported path must equal the minimum over all paths through the real candidate set (suffix-memo minimum cross-checked by explicit enumeration of all paths), total_cost must be the prefix sum, and every node's stored minimum must satisfy the recurrence.",
   "connection costs taken from the structured matrix / the string-level bigram sum, not from the code under test; costs stay far inside i32",
   "bounded exhaustive input enumeration; all-paths minimum as oracle"),
 "C03": ("E1 input-tree explorer + lattice and char-info hooks", "4.C03",
   "For all 16 invoke/group/length settings x 6 category layouts x unk multiplicities x lexicons x max_grouping_len x ignore_space and all sentences within the bound, the multiset of lattice nodes equals the candidate set computed from the statement; the character table is compared on all range bounds +-1, U+0000, U+FFFF and astral probes.",
   "the scan structure under ignore_space (which boundary a word after a gap connects to) follows the implementation where no property fixes it",
   "bounded exhaustive input enumeration against a reference candidate generator"),
 "C04": ("E2 operation-history explorer + E3 preemption-bounded scheduler", "4.C04",
   "All histories of one worker over {reset_sentence(s) for 6 sentences, tokenize} up to depth 5/7 are executed on a real worker and compared with the reference state machine; all interleavings of 2-3 real OS threads (own worker each, one shared tokenizer) at the instrumented yield points with at most 2/3 preemptions are executed under a baton scheduler and each thread's observations compared with the sequential ones; a failing schedule is replayed twice.",
   "yield points sit at entry/exit/inside reset_sentence and tokenize and at every lattice position; memory-ordering effects are not modelled; threads blocked on real locks are detected through /proc and treated as disabled",
   "stateless model checking of real threads under a controlled scheduler (iterative context bounding) + bounded exhaustive operation-history enumeration"),
 "C05": ("E2 lock-step bisimulation + E5 dual build", "4.C05",
   "For every dictionary reached by a history of depth <= 2 over {load user x2, clear, map x4, write->read} on 4 connector variants, the instance is written, re-read, re-written (bytes and reported length compared) and then run in lock-step with its reloaded twin under every continuation of depth <= 2/3, comparing op outcomes, images, the whole connection table and the tokens of all sentences <= 4/5 chars; images and observation tables are exchanged between the portable and the AVX2 build in both directions.",
   "the dual connector's template split depends on hash order, so a twin is always reloaded from the very instance it is compared with",
   "explicit-state exploration of operation histories with a bisimulation oracle"),
 "C06": ("E2 operation-history explorer + conn-cost hook", "4.C06",
   "All histories of depth <= 3/4 over {map x4, load user x2, clear, write->read} containing a map, on matrix/raw/dual dictionaries with 4 ids per side: the mapped dictionary must equal the never-mapped twin on every token field of all sentences <= 4/5 chars (ids through the composed permutation) and its connection table must be the permuted structural table; all 36 permutation pairs for a single map; every mapping iterator over {0..n} of length 0..n+1 must be accepted iff it is a permutation of 1..n-1 and never panic.",
   "tie-breaking is positional and independent of ids, so exact token equality with the twin is implied by the statement",
   "explicit-state exploration of operation histories against a reference state (composed permutation) and a differential twin"),
 "C08": ("E1 + E2 + lattice hook", "4.C08",
   "For every lexicon/cost dictionary with each of 3 user lexicons, option setting and sentence <= 5/6 chars, lattice candidates and optimal cost equal those of the dictionary whose system lexicon is extended by the same rows; all load/replace/clear histories to depth 3/4 (also on a mapped dictionary) behave like the canonical history; user rows with ids in {0,n-1,n,n+1,65535}^2 and malformed CSVs are accepted iff valid, in 5 contexts, never panicking.",
   "candidate equality is modulo lexicon type and word id, as the statement says",
   "bounded exhaustive input and history enumeration with a differential oracle"),
 "C07": ("exhaustive scorer key sets + bigram-model families + E5 dual build", "4.C07",
   "(1) all 2^16 subsets of a 4x4 key grid (thorough: all subsets up to size 5 of a 6x6 grid, dense grids with keys up to 2^22) are built into the XOR double array and every pair of a query grid incl. absent, out-of-range and invalid keys is looked up, also after encode/decode; (2) for K=1 every row layout over {'',x,y,*} and for K in {2,3,7,8,9,16,17} patterned rows (quoted, shared, ragged) with subsets of a cost menu incl. BOS/EOS entries, every id pair incl. 0 of the raw and the dual connector equals the string-level defining sum; (3) raw, dual and materialised matrix tokenize all sentences identically; (1)-(2) run in the portable and the AVX2 build.",
   "dual connector compared only where the sum of absolute costs fits 16 bits (the statement's condition); '*' never listed in bigram.cost",
   "bounded exhaustive enumeration of key sets and models against a string-level reference"),
 "C09": ("E4 crash-point enumerator", "4.C09",
   "Every strict prefix (all ~2.6e5 offsets) of the images of 6 dictionaries (matrix/raw/dual, plain and with user lexicon + mapper) is fed to Dictionary::read through a whole-slice reader and short-read readers; every single-byte substitution of the magic (all 255 other values at each of the 21 positions), every one-byte deletion, neighbour exchange and 7 one-byte insertions per position, and 5 foreign headers: all must return Err without panic.",
   "a Write sink can only append, so an interrupted write leaves exactly a prefix; streams that start with the current magic but continue with garbage are outside the statement",
   "exhaustive crash-point (prefix) enumeration"),
 "C10": ("E4 byte-string / edit enumerator + E1", "4.C10",
   "One definition file at a time is replaced by every byte string up to 6/7 bytes over a per-format alphabet, every line of <= 4/5 tokens of a per-format token grammar, every CSV row of a field menu, every single-byte edit/truncation/line operation of 3 valid seed files (raw and dual connectors too) and structured extremes; the builder must return Ok or Err; accepted char.def files inside a conservative reference grammar must yield exactly the table they describe; every accepted dictionary tokenizes all sentences <= 3/4 chars with well-formed tokens.",
   "the independent char.def reader gives no verdict outside its grammar; mapping iterators are swept in C06; K1 and K4 are recorded findings",
   "bounded exhaustive input enumeration (all strings / all single edits) with acceptance-implies-safety oracle"),
 "C11": ("E4/E1 CSV file enumerator", "4.C11",
   "All lexicon CSV files of 1-2 rows (3 rows: slice in quick, all in thorough) from a row menu (7-8 raw surfaces, 4-5 number combinations, 6-8 raw feature tails, 4 terminators) are built; words, their order, ids, costs and verbatim features are compared with the generating structure and the homograph multiset of each surface is read from the lattice.",
   "expected values come from the structure that generated the file; no CSV parser on the oracle side",
   "bounded exhaustive input enumeration against the generating structure"),
 "C12": ("E1 input-tree explorer, metamorphic classes", "4.C12",
   "For every dictionary meeting the precondition (4-8 settings of the neighbouring category x lexicons x 6 connectors) and every sentence <= 6/7 chars over {a,b,c,U+0020,U+3000}, all members of a space-normal-form class must yield the same token list (surface, feature, cost, ids, total); the class representative is checked against the reference minimum.",
   "asserted only under the statement's precondition",
   "bounded exhaustive input enumeration with a metamorphic class oracle"),
 "C13": ("E2 history explorer over training lines", "4.C13",
   "Every sequence of <= 3/4 lines from a 7-line set (empty, space-only, trailing spaces, repeated) is fed through the reorder protocol on dictionaries with both ignore_space settings; the statistics must equal the counts of the reference lattice, be sorted by frequency then id and be accepted by map_connection_ids_from_iter with unchanged tokenization.",
   "reference lattice recounts (predecessor, node) pairs independently",
   "bounded exhaustive operation-sequence enumeration against a reference recount"),
 "C14": ("E6 trained-model universe + model hooks", "4.C14",
   "Every configuration of a finite training family (3 seed lexicons x 2 unk.def x 2 char.def x all 31 template subsets x 2 rewrite.def x 4 corpora x 4 user-lexicon settings; quick: a deterministic half) is really trained; then every assignment of the first 3/5 weights from {-1,-0.37,0.5,1} is injected into the trained structure; in every state the four generated files are compared with the image recomputed from the raw model through rucrf's public merge(): rows, order, verbatim surfaces/features, ids, dimensions, every cost, user rows, and the files must compile.",
   "the CRF optimiser is the environment; rucrf merge() trusted; float costs accepted within one unit only at integer boundaries",
   "bounded exhaustive enumeration of training configurations and injected weight vectors against a recomputed image"),
 "C15": ("E2 over E6", "4.C15",
   "For every second / every model of the trained family without configured user lexicons, the whole tree of histories of <= 3/4 ops over {write_dictionary, write_bigram_details (separate, either order), write_model->read_model, add user lexicon x3} plus a final write of either kind is explored depth-first; a node is reached by copying its parent's models field by field (hook verif_twin, not the model codec; bound to the code per model by driving original and copy through the same operations); from the first round trip on, the in-memory model and its reloaded twin are compared file by file at every generation (bigram.cost as a multiset), and repeated generation must be stable.",
   "user lexicons added before a round trip are not persisted by write_model, so user.csv is not compared for those histories",
   "explicit-state exploration of operation histories with a bisimulation oracle"),
 "C16": ("E6 + conn-cost hook", "4.C16",
   "For every trained model of the C14 family and every injected weight vector, the emitted bigram files are compiled with the raw and the dual connector and matrix.def with the matrix connector; every id pair incl. row/column 0 must agree within K+1 and the dimensions must be equal; the compiled raw/dual dictionary is then id-mapped (rotation on both sides) and must still agree with the equally permuted matrix.def; configurations with user lexicons are also run as (train without them, export, read the user lexicons, write_bigram_details before write_dictionary). A discrepancy is attributed to the recorded finding K3 only if the real table equals the string-level sum in which '*' is an ordinary feature and the sum over the model's true feature tuples is within K+1 of matrix.def.",
   "K3 (literal '*' feature), K8 (feature expanding to the empty string), K9 (feature containing '/'), K4, K7 and K6 (rucrf panic on an empty bigram table) are recorded findings",
   "bounded exhaustive enumeration of training configurations with a cross-compilation oracle"),
 "C17": ("product enumeration + rewrite hook", "4.C17",
   "All ordered rule lists of <= 3/4 rules with patterns of 1-2 (thorough 1-3) columns over {*,a,b,(a|b)} x all feature lists of length 0-3 over {a,b,c} are applied by the real rewriter (rule-list hook and rewrite.def text with all section assignments) and compared with 'first rule in list order that matches position-wise as a prefix'.",
   "a pattern longer than the feature list does not match",
   "bounded exhaustive enumeration against a reference rewriter"),
 "C18": ("product enumeration + template hook; E6 for the dictionary level", "4.C18",
   "Function level: all sets of 1-2/3 templates of a 12-template menu per kind x all feature rows of length 0-3 over {a,b,*,\"p,q\"} x 2 category ids against a string-level expander (strings, optional references, equal strings <=> equal ids). Dictionary level: for every really trained model of the C14 family, words with equal reference (rewritten) context tuples share the connection id, and bigram.left/right list exactly those tuples or '*'.",
   "the reference rewrite and expander are string-level re-implementations of the documented semantics",
   "bounded exhaustive enumeration against a reference expander"),
 "C19": ("E4/E1 corpus enumerator", "4.C19",
   "Every sequence of <= 5/6 lines from an 8-line menu (tokens, empty surface, token spelled EOS, EOS, malformed lines, empty line), with and without final newline, is parsed, written back and re-parsed and compared with a reference line reader; the MeCab-style output of the tokenizer for all tab-free sentences <= 4/5 chars on lexicon dictionaries (incl. a word spelled EOS) must parse into exactly the tokens.",
   "the tokenize binary's three writes per token are mirrored, the binary itself is not run",
   "bounded exhaustive input enumeration against a reference reader"),
 "C20": ("product enumeration + conn-cost hook", "4.C20",
   "Template sets x id tables (8 shapes incl. missing id 0, gap, malformed, unordered) x all 512 subsets of a 9-line model.def menu x 2 cost factors: accepted conversions are compiled and every non-zero id pair compared with the sum over applicable templates of -trunc(w x factor) for the line whose text is left expansion '/' right expansion; malformed tables must be errors.",
   "id tables without id 0 are treated as valid with an implicit BOS/EOS",
   "bounded exhaustive enumeration against a string-level reference"),
}

NOT_YET = {}

def main():
    props = [json.loads(l) for l in open('/verif/properties.jsonl')]
    checks = []
    na = []
    for p in props:
        pid = p['id']
        if pid in CHECKS:
            engine, ref, text, note, tech = CHECKS[pid]
            checks.append({
                "property_id": pid,
                "quick_cmd": f"bin/check {pid} quick",
                "thorough_cmd": f"bin/check {pid} thorough",
                "evidence_file": f"/verif/evidence/{pid}.json",
                "replay_cmd_template": "/verif/target/release/vmc replay {path}",
                "engine": engine,
                "level_claimed": {"category": "model_checking", "text": text, "design_ref": ref},
                "level_note": note,
                "technique": tech,
            })
        else:
            na.append({"property_id": pid, "reason": NOT_YET.get(pid, "check not built yet in this round (planned in DESIGN.md section 4); not claimed")})
    commits = subprocess.run(["git","-C","/repo","log","--format=%h %s"],capture_output=True,text=True).stdout.splitlines()
    hook_commits = [c.split()[0] for c in commits if c.split(' ',1)[1].startswith('verif:')]
    m = {
      "version": 1,
      "setup_cmd": "bin/setup",
      "hooks": {
        "guard": "--cfg vibrato_verif",
        "enable": "RUSTFLAGS=\"--cfg vibrato_verif\" via /verif/mc/.cargo/config.toml; the harness crate path-depends on /repo/vibrato so every check rebuilds the working tree",
        "baseline_off_cmd": "cd /repo && cargo test --workspace --no-fail-fast --offline",
        "source_commits": hook_commits,
        "add_only": True,
      },
      "engines": [
        {"name": "vmc", "path": "/verif/mc", "serves_properties": sorted(CHECKS), "kind_free_text": "Rust harness: explicit-state / small-scope exhaustive exploration of the real implementation (input trees, operation histories, crash prefixes, schedules) against reference models"},
      ],
      "checks": checks,
      "not_applicable": na,
      "notes": "exit 2 = machinery failure (build error, vacuous universe), never a verdict. Known findings: /verif/known_findings.json.",
    }
    json.dump(m, open('/verif/MANIFEST.json','w'), indent=1)
    print("checks:", [c['property_id'] for c in checks])

main()
