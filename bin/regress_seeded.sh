#!/bin/bash
# usage: bin/regress_seeded.sh > seeded/REGRESSION.log
# Applies every seeded change to /repo in turn, runs the quick checks named in its meta.json
# (detected_by) and reverts. Takes 2-3 hours for 200 changes; nothing else may build meanwhile.
# every seeded change against the checks listed in its meta.json detected_by
cd /verif
for d in seeded/*/; do
  n=$(basename $d)
  ids=$(python3 -c "import json;print(' '.join(json.load(open('$d/meta.json'))['detected_by']))")
  cd /repo; git apply /verif/$d/patch.diff || { echo "$n PATCH-FAIL"; cd /verif; continue; }
  cd /verif
  res=""
  for id in $ids; do
    if [[ $n == *C05-avx2* || $n == *C07-avx2* ]]; then :; fi
    out=$(bin/check $id quick 2>&1)
    if echo "$out" | grep -q "^VIOLATION property=$id"; then res="$res $id:DETECTED"; elif echo "$out" | grep -q MACHINERY; then res="$res $id:MACHINERY"; else res="$res $id:missed"; fi
  done
  git -C /repo checkout -q -- .
  echo "$n ->$res"
done
