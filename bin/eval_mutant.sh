#!/bin/bash
# usage: bin/eval_mutant.sh <scratch worktree> <patch.diff> <demo file> <check ids...>
# 1. confirms in the scratch worktree: patch applies, 103 tests pass with it, demo fails with it, demo passes without
# 2. applies the patch to /repo, runs the named quick checks, reverts /repo
set -u
WT="$1"; PATCH="$2"; DEMO="$3"; shift 3
export CARGO_NET_OFFLINE=true
DN=$(basename "$DEMO" .rs)
cd "$WT" || exit 2
git checkout -q -- . ; git clean -fdq vibrato/tests 2>/dev/null
mkdir -p vibrato/tests; cp "$DEMO" vibrato/tests/$DN.rs
echo "== demo WITHOUT patch"
cargo test -p vibrato --offline --test $DN 2>&1 | grep -E "^test result|error(\[|:)" | head -3
git apply "$PATCH" || { echo "PATCH DOES NOT APPLY"; exit 2; }
echo "== demo WITH patch"
cargo test -p vibrato --offline --test $DN 2>&1 | grep -E "^test result|error(\[|:)" | head -3
echo "== unit tests WITH patch"
cargo test -p vibrato --offline --lib 2>&1 | grep -E "^test result|error(\[|:)" | head -3
cargo test -p vibrato --offline --doc 2>&1 | grep -E "^test result|error(\[|:)" | head -3
git checkout -q -- . ; rm -f vibrato/tests/$DN.rs
cd /repo || exit 2
if [ -n "$(git status --porcelain --untracked-files=no)" ]; then echo "/repo not clean"; exit 2; fi
git apply "$PATCH" || { echo "PATCH DOES NOT APPLY TO /repo"; exit 2; }
for id in "$@"; do
  echo "== check $id on patched /repo"
  /verif/bin/check $id quick | grep -E "VIOLATION|MACHINERY|class:|^C[0-9]+ quick" | head -8
done
git checkout -q -- .
git status --porcelain --untracked-files=no
